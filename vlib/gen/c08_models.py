"""Model zoo shared by C08 (objectivity) and C10 (derivative consistency).

Part 1 (numpy only; safe to import in the parent): the list of model/option configurations, admissible random
constants, deformation classes (principal-stretch classes x frames), history generators and small numpy helpers
(polar data, closed-form flow stress, the tensor that reaches the eigen-solver).

Part 2 (imports jax/optimism lazily; worker only): builders that call the library's *public factories* with the
constants as traced arguments, so that ONE compilation of a configuration serves every random constant set:

    W(H, state, dt, cvec, aux) = factory(dict(cvec)).compute_energy_density(H, state, dt)

The factory is executed at trace time exactly as a user would execute it; only the python floats in the property
dictionary are replaced by tracers (all factories only do arithmetic on them).  ``aux = [phase, gradPhase(3)]`` is
used by the phase-field model only.
"""
import math

import numpy as onp

from vlib.common import haar_so3, inplane_rot, loguniform

EPS = float(onp.finfo(float).eps)
I3 = onp.eye(3)

# ------------------------------------------------------------------------------------------------------------------
# configurations
# ------------------------------------------------------------------------------------------------------------------
# finite : the energy is formulated in finite deformations (objectivity/isotropy/Kirchhoff-symmetry clauses apply)
# eig    : which eigen-solver based tensor function the strain measure goes through (None | 'log' | 'pow')
# state  : layout of the internal state
_HARD = {
    "lin": ("linear", ["H"]),
    "voce": ("voce", ["Ysat", "eps0"]),
    "pow": ("power law", ["n", "eps0"]),
    "rate": ("linear", ["H", "S", "m", "epsDot0"]),
}
_KIN = {"large": "large deformations", "small": "small deformations", "seth": "seth hill"}


def _configs():
    C = {}
    C["le_linear"] = dict(family="LinearElastic", opts={"strain measure": "linear"}, cnames=["E", "nu"], finite=False, eig=None, state="none")
    C["le_gl"] = dict(family="LinearElastic", opts={"strain measure": "green lagrange"}, cnames=["E", "nu"], finite=True, eig=None, state="none")
    C["le_log"] = dict(family="LinearElastic", opts={"strain measure": "logarithmic"}, cnames=["E", "nu"], finite=True, eig="log", state="none")
    C["neo_adagio"] = dict(family="Neohookean", opts={"version": "adagio"}, cnames=["E", "nu"], finite=True, eig=None, state="none")
    C["neo_coupled"] = dict(family="Neohookean", opts={"version": "coupled"}, cnames=["E", "nu"], finite=True, eig=None, state="none")
    C["gent"] = dict(family="Gent", opts={}, cnames=["K", "mu", "Jm"], finite=True, eig=None, state="none")
    for kin in ("large", "small", "seth"):
        for hk, (hname, hc) in _HARD.items():
            C["j2_%s_%s" % (kin, hk)] = dict(
                family="J2Plastic", opts={"kinematics": _KIN[kin], "hardening model": hname}, hard=hk, kin=kin,
                cnames=["E", "nu", "Y0"] + hc, finite=(kin != "small"),
                eig={"large": "log", "small": None, "seth": "pow"}[kin],
                state={"large": "j2_large", "small": "j2_small", "seth": "j2_small"}[kin])
    C["visco1"] = dict(family="HyperViscoelastic", opts={}, cnames=["K", "G", "G1", "tau1"], finite=True, eig="log", state="visco1")
    C["visco3"] = dict(family="MultiBranchHyperViscoelastic", opts={}, cnames=["K", "G", "G1", "tau1", "G2", "tau2", "G3", "tau3"],
                       finite=True, eig="log", state="visco3")
    C["pft_large"] = dict(family="PhaseFieldThreshold", opts={"kinematics": "large deformations"}, cnames=["E", "nu", "Gc", "l"],
                          finite=True, eig="log", state="pf")
    C["pft_small"] = dict(family="PhaseFieldThreshold", opts={"kinematics": "small deformations"}, cnames=["E", "nu", "Gc", "l"],
                          finite=False, eig=None, state="pf")
    for k, v in C.items():
        v["name"] = k
    return C


CONFIGS = _configs()
NAMES = list(CONFIGS)


def is_j2(name):
    return CONFIGS[name]["family"] == "J2Plastic"


def is_visco(name):
    return CONFIGS[name]["state"] in ("visco1", "visco3")


# ------------------------------------------------------------------------------------------------------------------
# constants
# ------------------------------------------------------------------------------------------------------------------

def _nu(rng, lo=-0.3):
    """Poisson ratio: bulk of the admissible range plus the nearly incompressible end."""
    u = rng.random()
    if u < 0.2:
        return 0.49
    if u < 0.3:
        return float(rng.uniform(0.45, 0.495))
    if u < 0.4:
        return 0.0
    return float(rng.uniform(lo, 0.45))


def sample_consts(name, rng, yield_strain=None):
    """Random admissible constants as a list ordered like CONFIGS[name]['cnames'] (JSON-able floats)."""
    cfg = CONFIGS[name]
    fam = cfg["family"]
    if fam in ("LinearElastic", "Neohookean"):
        return [float(loguniform(rng, 1e-3, 1e6)), _nu(rng)]
    if fam == "Gent":
        mu = float(loguniform(rng, 1e-3, 1e6))
        return [mu * float(loguniform(rng, 0.7, 60.0)), mu, float(loguniform(rng, 3.0, 200.0))]
    if fam == "PhaseFieldThreshold":
        # Gc/l (the scale of the phase potential, a deformation-independent offset of the energy) is kept within 1e-3..1 of E so that
        # the offset does not swamp the strain energy in finite-difference and invariance comparisons
        E = float(loguniform(rng, 1e-3, 1e6))
        ell = float(loguniform(rng, 1e-3, 1.0))
        return [E, _nu(rng, 0.0), E * ell * float(loguniform(rng, 1e-3, 1.0)), ell]
    if fam in ("HyperViscoelastic", "MultiBranchHyperViscoelastic"):
        G = float(loguniform(rng, 1e-2, 1e4))
        out = [G * float(loguniform(rng, 0.7, 100.0)), G]
        nb = 1 if fam == "HyperViscoelastic" else 3
        for _ in range(nb):
            out += [G * float(loguniform(rng, 1e-2, 1e2)), float(loguniform(rng, 1e-2, 1e2))]
        return out
    if fam == "J2Plastic":
        E = float(loguniform(rng, 1.0, 1e6))
        nu = _nu(rng, 0.0)
        ey = float(loguniform(rng, 1e-4, 3e-2)) if yield_strain is None else float(yield_strain)
        Y0 = E * ey
        hk = cfg["hard"]
        if hk == "lin":
            H = 0.0 if rng.random() < 0.08 else E * float(loguniform(rng, 1e-4, 0.3))
            return [E, nu, Y0, H]
        if hk == "voce":
            return [E, nu, Y0, Y0 * float(rng.uniform(1.05, 4.0)), float(loguniform(rng, 1e-3, 0.2))]
        if hk == "pow":
            return [E, nu, Y0, float(rng.uniform(1.5, 12.0)), float(loguniform(rng, 1e-3, 0.2))]
        if hk == "rate":
            return [E, nu, Y0, E * float(loguniform(rng, 1e-4, 0.3)), Y0 * float(rng.uniform(0.05, 1.5)), float(rng.uniform(1.2, 6.0)),
                    float(loguniform(rng, 1e-2, 1e2))]
    raise KeyError(name)


def moduli(name, cvec):
    """(shear-like, bulk-like) moduli that set the energy scale (sum of all branches for the viscous models)."""
    fam = CONFIGS[name]["family"]
    c = [float(x) for x in cvec]
    if fam in ("LinearElastic", "Neohookean", "PhaseFieldThreshold", "J2Plastic"):
        E, nu = c[0], c[1]
        return 0.5 * E / (1 + nu), E / 3.0 / (1 - 2 * nu)
    if fam == "Gent":
        return c[1], c[0]
    if fam == "HyperViscoelastic":
        return c[1] + c[2], c[0]
    if fam == "MultiBranchHyperViscoelastic":
        return c[1] + c[2] + c[4] + c[6], c[0]
    raise KeyError(name)


def flow_stress(name, cvec, eqps):
    """Closed-form rate-independent flow stress Y(eqps) (independent of Hardening.py)."""
    c = [float(x) for x in cvec]
    hk = CONFIGS[name]["hard"]
    Y0 = c[2]
    if hk in ("lin", "rate"):
        return Y0 + c[3] * eqps
    if hk == "voce":
        Ysat, e0 = c[3], c[4]
        return Ysat - (Ysat - Y0) * math.exp(-eqps / e0)
    if hk == "pow":
        n, e0 = c[3], c[4]
        return Y0 * (1.0 + eqps / e0) ** (1.0 / n)
    raise KeyError(name)


def sample_dt(name, cvec, rng):
    if is_visco(name):
        taus = [float(x) for x in cvec[3::2]]
        return float(taus[int(rng.integers(len(taus)))] * loguniform(rng, 1e-3, 1e3))
    if is_j2(name):
        return float(loguniform(rng, 1e-2, 1e2))
    return 1.0


# ------------------------------------------------------------------------------------------------------------------
# deformation classes
# ------------------------------------------------------------------------------------------------------------------
STRETCH_CLASSES = ["distinct", "two_equal", "three_equal", "uniaxial_inplane", "equibiaxial", "dilation", "simple_shear"]
# classes whose right stretch tensor has (at least) two equal principal stretches
REPEATED_CLASSES = {"two_equal", "three_equal", "uniaxial_inplane", "equibiaxial", "dilation"}


def _sgn(rng):
    return 1.0 if rng.random() < 0.5 else -1.0


def stretch_point(cls, rng, smin=1e-3, smax=1.0):
    """Return a dict describing F = R.U of class `cls` with log-strain magnitude in [smin, smax].

    keys: F (3x3), U, R, logs (principal log stretches), frame ('diag'|'inplane'|'generic'), diagonalF (bool: F is an
    exactly diagonal matrix, i.e. the tensor F^T F handed to the eigen-solver is exactly axis aligned).
    """
    s = float(loguniform(rng, smin, smax))
    polar = rng.random()
    if cls == "distinct":
        # separations comparable with the magnitude: no accidental near-degeneracy
        while True:
            e = rng.uniform(-1.0, 1.0, 3)
            d = onp.abs([e[0] - e[1], e[1] - e[2], e[2] - e[0]]).min()
            if d >= 0.25 and onp.abs(e).max() > 0.5:
                break
        logs = s * e / onp.abs(e).max()
        Ru = haar_so3(rng) if rng.random() < 0.7 else inplane_rot(rng.uniform(0, 2 * math.pi))
        frame = "generic"
    elif cls == "two_equal":
        a = s * _sgn(rng)
        b = s * float(rng.uniform(-1.0, 1.0))
        if abs(a - b) < 0.25 * s:
            b = -a * 0.5
        logs = onp.array([a, a, b]) if rng.random() < 0.5 else onp.array([b, a, a])
        Ru = haar_so3(rng)
        frame = "generic"
    elif cls == "three_equal":
        a = s * _sgn(rng)
        logs = onp.array([a, a, a])
        Ru = I3.copy()
        polar = 0.9  # always carries a Haar rotation: F = a R (a rotated dilation)
        frame = "generic"
    elif cls == "uniaxial_inplane":
        a = s * _sgn(rng)
        logs = onp.array([a, 0.0, 0.0])
        Ru = inplane_rot(rng.uniform(0, 2 * math.pi))
        frame = "inplane"
    elif cls == "equibiaxial":
        a = s * _sgn(rng)
        c = [0.0, -2.0 * a, float(rng.uniform(-1, 1)) * s][int(rng.integers(3))]  # plane strain / isochoric / general
        if abs(c - a) < 0.2 * s:
            c = 0.0
        logs = onp.array([a, a, c])
        Ru = I3.copy() if rng.random() < 0.5 else inplane_rot(rng.uniform(0, 2 * math.pi))
        frame = "diag" if onp.array_equal(Ru, I3) else "inplane"
    elif cls == "dilation":
        a = s * _sgn(rng)
        logs = onp.array([a, a, a])
        Ru = I3.copy()
        polar = 0.0  # pure dilation: F = a I exactly
        frame = "diag"
    elif cls == "simple_shear":
        g = 2.0 * math.sinh(s) * _sgn(rng)  # principal log stretch = asinh(g/2) = s
        F = I3.copy()
        i, j = [(0, 1), (1, 0), (0, 2), (1, 2)][int(rng.integers(4))]
        F[i, j] = g
        lam = onp.sqrt(onp.linalg.eigvalsh(F.T @ F))
        return dict(cls=cls, F=F, logs=onp.log(lam), frame="inplane" if (i < 2 and j < 2) else "generic", diagonalF=False, strain=s)
    else:
        raise KeyError(cls)
    U = Ru @ onp.diag(onp.exp(logs)) @ Ru.T
    U = 0.5 * (U + U.T)
    if polar < 0.25:
        R = I3.copy()
    elif polar < 0.5:
        R = inplane_rot(rng.uniform(0, 2 * math.pi))
    else:
        R = haar_so3(rng)
    if cls == "uniaxial_inplane" and polar >= 0.5:
        R = inplane_rot(rng.uniform(0, 2 * math.pi))  # keep this class a plane-strain state
    F = R @ U
    diagonalF = bool(onp.count_nonzero(F - onp.diag(onp.diag(F))) == 0)
    return dict(cls=cls, F=F, logs=logs, frame=frame, diagonalF=diagonalF, strain=float(onp.abs(logs).max()))


def random_rotation(rng, kind=None):
    kind = kind or ("haar" if rng.random() < 0.7 else "inplane")
    if kind == "haar":
        return haar_so3(rng), "haar"
    return inplane_rot(rng.uniform(0, 2 * math.pi)), "inplane"


def sym_from_logs(logs, Rf):
    """Symmetric positive definite tensor with principal stretches exp(logs) in the frame Rf."""
    U = Rf @ onp.diag(onp.exp(onp.asarray(logs, float))) @ Rf.T
    return 0.5 * (U + U.T)


# spectral classes of the tensor that reaches the eigen-solver (C10)
SPECTRAL_CLASSES = ["reference", "distinct", "pair_axis", "pair_inplane", "pair_generic", "triple"]


def spectral_stretch(cls, rng, dev_norm, vol=0.0, gap=None):
    """Elastic right stretch Ue (symmetric) whose log has deviatoric Frobenius norm `dev_norm`, trace `vol`, in spectral
    class `cls`.  `gap` (relative gap of the squared stretches, i.e. of the eigenvalues handed to the eigen-solver) turns
    a pair class into a near-degenerate one.  Returns (Ue, info).
    """
    if cls == "reference":
        return I3.copy(), dict(designed_gap=0.0, frame="diag", axis_exact=True)
    if cls == "triple":
        Ue = math.exp(vol / 3.0) * I3
        return Ue, dict(designed_gap=0.0, frame="diag", axis_exact=True)
    if cls == "distinct":
        while True:
            e = rng.standard_normal(3)
            e -= e.mean()
            e /= onp.linalg.norm(e)
            d = onp.abs([e[0] - e[1], e[1] - e[2], e[2] - e[0]]).min()
            if d > 0.2:
                break
        Rf = haar_so3(rng) if rng.random() < 0.7 else inplane_rot(rng.uniform(0, 2 * math.pi))
        logs = dev_norm * e + vol / 3.0
        gapv = float((onp.abs(onp.diff(onp.sort(onp.exp(2 * logs))))).min() / onp.exp(2 * logs).max())
        return sym_from_logs(logs, Rf), dict(designed_gap=gapv, frame="generic", axis_exact=False)
    # pair classes: dev log strain = t * (1, 1, -2)/sqrt(6) (or its negative), |dev| = dev_norm
    t = dev_norm / math.sqrt(6.0) * _sgn(rng)
    logs = onp.array([t, t, -2.0 * t]) + vol / 3.0
    if gap is not None and gap > 0:
        # split the pair so that (c2 - c1)/max(c) = gap for the squared stretches c (the eigenvalues the eigen-solver sees)
        c = onp.exp(2.0 * logs)
        c1 = c[0] / (1.0 - gap) if c[0] >= c[2] else c[0] + gap * c[2]
        logs = onp.array([logs[0], 0.5 * math.log(c1), logs[2]])
    perm = [[0, 1, 2], [2, 0, 1], [0, 2, 1]][int(rng.integers(3))]
    if cls == "pair_axis":
        lam = onp.exp(logs)[perm]
        return onp.diag(lam), dict(designed_gap=float(gap or 0.0), frame="diag", axis_exact=True)
    if cls == "pair_inplane":
        # distinct stretch along an arbitrary in-plane axis, the repeated pair spans the other in-plane axis and the normal
        Rf = inplane_rot(rng.uniform(0.05, math.pi / 2 - 0.05) + (math.pi / 2) * int(rng.integers(4)))
        logs_p = onp.array([logs[2], logs[0], logs[1]])
        return sym_from_logs(logs_p, Rf), dict(designed_gap=float(gap or 0.0), frame="inplane", axis_exact=False)
    if cls == "pair_generic":
        Rf = haar_so3(rng)
        return sym_from_logs(logs[perm], Rf), dict(designed_gap=float(gap or 0.0), frame="generic", axis_exact=False)
    raise KeyError(cls)


# ------------------------------------------------------------------------------------------------------------------
# states and histories (numpy descriptions; the states themselves are produced by the library, see run_history)
# ------------------------------------------------------------------------------------------------------------------

def gen_history(name, cvec, rng, nsteps, plane=False):
    """Random displacement-gradient history [(H, dt), ...] sized so that the plastic models yield and the viscous ones
    relax: increments in units of the yield strain (J2) or 1e-3..0.2 (others), monotonic/reversing/non-proportional.
    """
    if is_j2(name):
        mu, _ = moduli(name, cvec)
        ey = float(cvec[2]) / (3.0 * mu)
        hi = min(0.15, 40.0 * ey)
        lo = 0.3 * ey
    else:
        lo, hi = 1e-3, 0.15
    H = onp.zeros((3, 3))
    out = []
    D = rng.standard_normal((3, 3))
    for k in range(nsteps):
        u = rng.random()
        if u < 0.35:
            D = rng.standard_normal((3, 3))  # non-proportional
        elif u < 0.5:
            D = -D  # reversal
        if plane:
            D = D.copy()
            D[2, :] = 0.0
            D[:, 2] = 0.0
        dH = D / onp.linalg.norm(D) * float(loguniform(rng, lo, hi))
        Hn = H + dH
        if onp.linalg.det(Hn + I3) < 0.3 or onp.abs(Hn).max() > 0.8:
            Hn = 0.5 * H
        H = Hn
        out.append((H.copy(), sample_dt(name, cvec, rng)))
    return out


def state_tensors(name, state):
    """The multiplicative/additive inelastic tensors held in a state vector (numpy), as a list of 3x3."""
    st = CONFIGS[name]["state"]
    s = onp.asarray(state, float)
    if st in ("j2_large", "j2_small"):
        return [s[1:10].reshape(3, 3)]
    if st == "visco1":
        return [s.reshape(3, 3)]
    if st == "visco3":
        return [s[9 * i:9 * i + 9].reshape(3, 3) for i in range(3)]
    return []


def rotate_state(name, state, Q):
    """State seen from a reference configuration rotated by Q (F -> F Q): every inelastic tensor A -> Q^T A Q."""
    st = CONFIGS[name]["state"]
    s = onp.array(state, float)
    if st in ("j2_large", "j2_small"):
        s[1:10] = (Q.T @ s[1:10].reshape(3, 3) @ Q).ravel()
    elif st == "visco1":
        s = (Q.T @ s.reshape(3, 3) @ Q).ravel()
    elif st == "visco3":
        for i in range(3):
            s[9 * i:9 * i + 9] = (Q.T @ s[9 * i:9 * i + 9].reshape(3, 3) @ Q).ravel()
    return s


def eig_tensors(name, H, state):
    """Tensor(s) handed to the eigen-solver by the strain measure of this configuration (numpy), [] if none."""
    cfg = CONFIGS[name]
    if cfg["eig"] is None:
        return []
    F = onp.asarray(H, float) + I3
    st = cfg["state"]
    if st == "j2_large" or st in ("visco1", "visco3"):
        out = []
        for A in state_tensors(name, state):
            Fe = F @ onp.linalg.inv(A)
            out.append(Fe.T @ Fe)
        return out
    return [F.T @ F]


def rel_gap(C):
    """Smallest gap between adjacent eigenvalues relative to the largest eigenvalue."""
    w = onp.linalg.eigvalsh(0.5 * (C + C.T))
    return float(onp.diff(w).min() / onp.abs(w).max())


def log_strain_norm(F):
    w = onp.linalg.eigvalsh(F.T @ F)
    return float(onp.linalg.norm(0.5 * onp.log(w)))


# ------------------------------------------------------------------------------------------------------------------
# Part 2: library-side builders (worker only)
# ------------------------------------------------------------------------------------------------------------------

def properties_dict(name, cvec):
    """The property dictionary the library factory receives (values may be jax tracers)."""
    cfg = CONFIGS[name]
    fam = cfg["family"]
    c = cvec
    d = dict(cfg["opts"])
    if fam in ("LinearElastic", "Neohookean"):
        d.update({"elastic modulus": c[0], "poisson ratio": c[1]})
    elif fam == "Gent":
        d.update({"bulk modulus": c[0], "shear modulus": c[1], "Jm parameter": c[2]})
    elif fam == "PhaseFieldThreshold":
        d.update({"elastic modulus": c[0], "poisson ratio": c[1], "critical energy release rate": c[2], "regularization length": c[3]})
    elif fam == "HyperViscoelastic":
        d.update({"equilibrium bulk modulus": c[0], "equilibrium shear modulus": c[1], "non equilibrium shear modulus": c[2],
                  "relaxation time": c[3]})
    elif fam == "MultiBranchHyperViscoelastic":
        d.update({"equilibrium bulk modulus": c[0], "equilibrium shear modulus": c[1]})
        for i in range(3):
            d["non equilibrium shear modulus %d" % (i + 1)] = c[2 + 2 * i]
            d["relaxation time %d" % (i + 1)] = c[3 + 2 * i]
    elif fam == "J2Plastic":
        d.update({"elastic modulus": c[0], "poisson ratio": c[1], "yield strength": c[2]})
        hk = cfg["hard"]
        if hk in ("lin", "rate"):
            d["hardening modulus"] = c[3]
        if hk == "voce":
            d.update({"saturation strength": c[3], "reference plastic strain": c[4]})
        if hk == "pow":
            d.update({"hardening exponent": c[3], "reference plastic strain": c[4]})
        if hk == "rate":
            d.update({"rate sensitivity": "power law", "rate sensitivity stress": c[4], "rate sensitivity exponent": c[5],
                      "reference plastic strain rate": c[6]})
    else:
        raise KeyError(name)
    return d


def build_model(name, cvec):
    """Call the library's public factory. Works with concrete floats and with tracers."""
    import contextlib
    import io
    fam = CONFIGS[name]["family"]
    props = properties_dict(name, cvec)
    with contextlib.redirect_stdout(io.StringIO()):  # the viscoelastic factories print their properties
        if fam == "LinearElastic":
            from optimism.material import LinearElastic as M
            return M.create_material_model_functions(props)
        if fam == "Neohookean":
            from optimism.material import Neohookean as M
            return M.create_material_model_functions(props)
        if fam == "Gent":
            from optimism.material import Gent as M
            return M.create_material_functions(props)
        if fam == "J2Plastic":
            from optimism.material import J2Plastic as M
            return M.create_material_model_functions(props)
        if fam == "HyperViscoelastic":
            from optimism.material import HyperViscoelastic as M
            return M.create_material_model_functions(props)
        if fam == "MultiBranchHyperViscoelastic":
            from optimism.material import MultiBranchHyperViscoelastic as M
            return M.create_material_model_functions(props)
        if fam == "PhaseFieldThreshold":
            from optimism.phasefield import PhaseFieldThreshold as M
            return M.create_material_model_functions(props)
    raise KeyError(name)


def energy_fn(name, which="total"):
    """W(H, state, dt, cvec, aux): the library's compute_energy_density of a model built from cvec.

    For the phase-field model aux = [phase, gradPhase_x, gradPhase_y, gradPhase_z]; which='strain' selects its
    compute_strain_energy_density (the phase potential 3Gc/8 (phase/l + l |grad phase|^2) is not a strain energy).
    """
    pf = CONFIGS[name]["family"] == "PhaseFieldThreshold"

    def W(H, state, dt, cvec, aux):
        m = build_model(name, cvec)
        if pf:
            f = getattr(m, {"total": "compute_energy_density", "strain": "compute_strain_energy_density"}.get(which, which))
            return f(H, aux[0], aux[1:4], state, dt)
        return getattr(m, {"total": "compute_energy_density"}.get(which, which))(H, state, dt)
    return W


def state_new_fn(name):
    pf = CONFIGS[name]["family"] == "PhaseFieldThreshold"

    def S(H, state, dt, cvec, aux):
        m = build_model(name, cvec)
        if pf:
            return m.compute_state_new(H, aux[0], aux[1:4], state, dt)
        return m.compute_state_new(H, state, dt)
    return S


def initial_state(name):
    """Virgin state from the library's own compute_initial_state (numpy copy)."""
    cfg = CONFIGS[name]
    dummy = sample_consts(name, onp.random.default_rng(0))
    m = build_model(name, dummy)
    return onp.array(m.compute_initial_state(), dtype=float).ravel()


def run_history(name, cvec, hist, jit_state_new, aux=None):
    """Drive the library's (jitted) compute_state_new along a history; returns list of states (numpy) after each step,
    and None in place of a state if the library returned a non-finite state (the caller counts these)."""
    import jax.numpy as np
    st = initial_state(name)
    aux = onp.zeros(4) if aux is None else aux
    out = []
    for H, dt in hist:
        sn = onp.array(jit_state_new(np.asarray(H), np.asarray(st), dt, np.asarray(cvec, dtype=float), np.asarray(aux)), dtype=float)
        if not onp.isfinite(sn).all():
            out.append(None)
            break
        out.append(sn)
        st = sn
    return out


# ------------------------------------------------------------------------------------------------------------------
# Part 3 (round 2): absolute scale of the constants, and option dictionaries for the aliasing workload (numpy only)
# ------------------------------------------------------------------------------------------------------------------
ABSENT = "<absent>"


def stress_like_indices(name):
    """Positions in cvec of the constants that carry units of stress (moduli, strengths; Gc = stress x length with lengths fixed)."""
    cfg = CONFIGS[name]
    fam = cfg["family"]
    if fam in ("LinearElastic", "Neohookean"):
        return [0]
    if fam == "Gent":
        return [0, 1]
    if fam == "PhaseFieldThreshold":
        return [0, 2]
    if fam == "HyperViscoelastic":
        return [0, 1, 2]
    if fam == "MultiBranchHyperViscoelastic":
        return [0, 1, 2, 4, 6]
    if fam == "J2Plastic":
        return {"lin": [0, 2, 3], "voce": [0, 2, 3], "pow": [0, 2], "rate": [0, 2, 3, 4]}[cfg["hard"]]
    raise KeyError(name)


def scale_consts(name, cvec, s):
    """The same dimensionless material in another unit system: every stress-like constant multiplied by s."""
    out = [float(x) for x in cvec]
    for i in stress_like_indices(name):
        out[i] = out[i] * float(s)
    return out


def normalize_consts(name, cvec):
    """Scale the constants so that the leading modulus is exactly 1 (the sweep then controls the absolute scale)."""
    return scale_consts(name, cvec, 1.0 / float(cvec[stress_like_indices(name)[0]]))


SCALE_BANDS = ["<1e-6", "1e-6..1e-2", "1e-2..1e2", "1e2..1e6", "1e6..1e10", ">=1e10"]


def scale_band(name, cvec):
    """Band of the absolute stiffness 3*mu (the J2 consistency slope is 3*mu + H')."""
    mu, _ = moduli(name, cvec)
    m = 3.0 * mu
    for lab, hi in zip(SCALE_BANDS, [1e-6, 1e-2, 1e2, 1e6, 1e10]):
        if m < hi:
            return lab
    return SCALE_BANDS[-1]


# scales used by the sweeps: exact powers of two across 1e-12..1e12, a few decimal unit systems (2e11: steel in pascals)
SWEEP_SCALES = [2.0 ** k for k in (-40, -27, -13, 0, 13, 27, 34, 37, 40)] + [1e-12, 1e-6, 1e6, 2e11, 1e12]


def random_case_scale(rng):
    """Scale attached to an ordinary case: 70 % keep the sampled unit system, 30 % move it by 10^k, k in -12..12."""
    if rng.random() < 0.7:
        return 1.0
    return float(10.0 ** int(rng.integers(-12, 13)))


# option keys of each factory and the values they accept (ABSENT = key not present; the factories define a default)
OPTION_VALUES = {
    "LinearElastic": {"strain measure": ["linear", "green lagrange", "logarithmic", ABSENT]},
    "Neohookean": {"version": ["adagio", "coupled", ABSENT]},
    "Gent": {},
    "J2Plastic": {"kinematics": ["large deformations", "small deformations", "seth hill", ABSENT],
                  "hardening model": ["linear", "voce", "power law"],
                  "rate sensitivity": ["power law", ABSENT]},
    "HyperViscoelastic": {},
    "MultiBranchHyperViscoelastic": {},
    "PhaseFieldThreshold": {"kinematics": ["large deformations", "small deformations", ABSENT]},
}

# groups of configurations that are built from ONE shared options dictionary in the aliasing workload
ALIAS_GROUPS = {
    "le": ["le_linear", "le_gl", "le_log"],
    "neo": ["neo_adagio", "neo_coupled"],
    "gent": ["gent"],
    "j2_large": ["j2_large_lin", "j2_large_voce", "j2_large_pow", "j2_large_rate"],
    "j2_small": ["j2_small_lin", "j2_small_voce", "j2_small_pow", "j2_small_rate"],
    "j2_seth": ["j2_seth_lin", "j2_seth_voce", "j2_seth_pow", "j2_seth_rate"],
    "visco1": ["visco1"],
    "visco3": ["visco3"],
    "pft": ["pft_large", "pft_small"],
}


def mutate_dict_to(d, target):
    """Turn the dict object d into `target` key by key (delete, overwrite, add) without replacing the object."""
    for k in list(d):
        if k not in target:
            del d[k]
    for k, v in target.items():
        d[k] = v


def scribble_options(d, family, step, numeric):
    """Scribble over a caller-owned options dict: every option key is moved `step` places along its value cycle (possibly deleted),
    every numeric entry is replaced by numeric(old)."""
    opts = OPTION_VALUES[family]
    for k, vals in opts.items():
        cur = d.get(k, ABSENT)
        i = vals.index(cur) if cur in vals else 0
        new = vals[(i + step) % len(vals)]
        if new == ABSENT:
            d.pop(k, None)
        else:
            d[k] = new
    for k in list(d):
        if k not in opts and isinstance(d[k], (int, float)):
            d[k] = numeric(d[k])


def factory_for(family):
    """The library's public factory of a family (worker only)."""
    if family == "LinearElastic":
        from optimism.material import LinearElastic as M
        return M.create_material_model_functions
    if family == "Neohookean":
        from optimism.material import Neohookean as M
        return M.create_material_model_functions
    if family == "Gent":
        from optimism.material import Gent as M
        return M.create_material_functions
    if family == "J2Plastic":
        from optimism.material import J2Plastic as M
        return M.create_material_model_functions
    if family == "HyperViscoelastic":
        from optimism.material import HyperViscoelastic as M
        return M.create_material_model_functions
    if family == "MultiBranchHyperViscoelastic":
        from optimism.material import MultiBranchHyperViscoelastic as M
        return M.create_material_model_functions
    if family == "PhaseFieldThreshold":
        from optimism.phasefield import PhaseFieldThreshold as M
        return M.create_material_model_functions
    raise KeyError(family)


def energy_entry_points(name):
    """Every energy-valued callable of the object the factory returns (discovered by introspection: callable fields whose name contains
    'energy'), e.g. compute_energy_density, compute_output_energy_density, compute_strain_energy_density."""
    m = build_model(name, sample_consts(name, onp.random.default_rng(0)))
    fields = getattr(m, "_fields", None) or [a for a in dir(m) if not a.startswith("_")]
    return [f for f in fields if "energy" in f and callable(getattr(m, f, None))]
