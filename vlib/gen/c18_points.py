"""C18 workload: arguments exactly on, and within +-{1,2,8} ulp of, every branch switch of the smoothing helpers,
plus stratified random arguments (widths over ten decades, arguments up to sixteen decades larger than the width).
numpy only -- no jax / optimism.

Every generator returns a dict of float64 arrays of equal length n plus
  cluster  (int, -1 for free points): members of one cluster surround one switch point
  center   (bool): the cluster's centre (the point constructed to lie on the switch)
Cluster members are the centre with ONE argument moved by k in (-8,-2,-1,1,2,8) ulps (numpy.nextafter).
"""
import math
from fractions import Fraction

import numpy as onp

KS = (-8, -2, -1, 1, 2, 8)
KIND_SWITCH, KIND_TIE, KIND_ANTI, KIND_ZERO = 0, 1, 2, 3
DECADES = [10.0 ** k for k in range(-10, 1)]


def ulp_shift(a, k):
    a = onp.array(a, dtype=float, copy=True)
    d = onp.inf if k > 0 else -onp.inf
    for _ in range(abs(int(k))):
        a = onp.nextafter(a, d)
    return a


def widths(rng, n, lo=-10.0, hi=0.0, special=()):
    """Smoothing widths: log-uniform over ten decades, exact decades, powers of two, a few special values."""
    e = 10.0 ** rng.uniform(lo, hi, n)
    u = rng.random(n)
    dec = onp.array([d for d in DECADES if 10.0 ** lo <= d <= 10.0 ** hi * (1 + 1e-12)])
    e = onp.where(u < 0.2, rng.choice(dec, n), e)
    p2 = 2.0 ** (-rng.integers(0, int(-lo * 3.3) + 1, n).astype(float))
    e = onp.where((u >= 0.2) & (u < 0.3), onp.clip(p2, 10.0 ** lo, 10.0 ** hi), e)
    if len(special):
        e = onp.where((u >= 0.3) & (u < 0.36), rng.choice(onp.array(special, dtype=float), n), e)
    return e


def magnitudes_relative(rng, n, e, cap=1e6):
    """|argument| relative to the width e: 0, comparable, 3-10 decades larger, 10-15.5 decades larger (capped)."""
    u = rng.random(n)
    r = onp.where(u < 0.08, 0.0,
        onp.where(u < 0.35, 10.0 ** rng.uniform(-3, 3, n),
        onp.where(u < 0.75, 10.0 ** rng.uniform(3, 10, n), 10.0 ** rng.uniform(10, 15.5, n))))
    y = r * e
    big = y > cap
    y = onp.where(big, cap * rng.uniform(0.01, 1.0, n), y)
    return y * rng.choice([-1.0, 1.0], n)


def _expand(center_cols, perturb, zero_ref=None, kind=0, id0=0):
    """center_cols: dict name -> (m,) arrays; perturb: names to move by ulps. Returns dict of arrays with the centre
    followed by its members, cluster ids (starting at id0), centre flags and the cluster kind.
    Where the centre value of the moved argument is exactly 0, an ulp step is a subnormal (flushed by XLA): the member
    is moved by k*eps_machine*center_cols[zero_ref] instead ("+-tiny")."""
    names = list(center_cols.keys())
    m = len(center_cols[names[0]])
    cols = {k: [center_cols[k]] for k in names}
    cid = [onp.arange(m) + id0]
    cen = [onp.ones(m, bool)]
    for p in perturb:
        for k in KS:
            for nme in names:
                if nme == p:
                    sh = ulp_shift(center_cols[nme], k)
                    if zero_ref is not None:
                        sh = onp.where(center_cols[nme] == 0.0, k * 2.0 ** -52 * center_cols[zero_ref], sh)
                    cols[nme].append(sh)
                else:
                    cols[nme].append(center_cols[nme])
            cid.append(onp.arange(m) + id0)
            cen.append(onp.zeros(m, bool))
    out = {k: onp.concatenate(v) for k, v in cols.items()}
    out["cluster"] = onp.concatenate(cid)
    out["center"] = onp.concatenate(cen)
    out["kind"] = onp.full(len(out["cluster"]), kind, dtype=int)
    return out


def _cat(parts):
    return {k: onp.concatenate([p[k] for p in parts]) for k in parts[0]}


def _with_free(clustered, free):
    n_free = len(next(iter(free.values())))
    out = {}
    for k in free:
        out[k] = onp.concatenate([clustered[k], free[k]])
    out["cluster"] = onp.concatenate([clustered["cluster"], -onp.ones(n_free, int)])
    out["center"] = onp.concatenate([clustered["center"], onp.zeros(n_free, bool)])
    out["kind"] = onp.concatenate([clustered.get("kind", onp.zeros(len(clustered["cluster"]), int)), -onp.ones(n_free, int)])
    return out


def exact_difference(x, y, e):
    """True where x - y == +-e exactly (rational arithmetic)."""
    return onp.array([abs(Fraction(float(a)) - Fraction(float(b))) == Fraction(float(c)) for a, b, c in zip(x, y, e)], dtype=bool)


# ----------------------------------------------------------------------------------------------- min / max (x, y, eps)

def gen_minmax(rng, nclus, nfree):
    e = widths(rng, nclus)
    y = magnitudes_relative(rng, nclus, e)
    side = rng.choice([-1.0, 1.0], nclus)
    x = y + side * e
    e0 = onp.abs(x - y)          # the width is *defined* by the pair so that the centre sits on the switch
    cl = _expand({"x": x, "y": y, "e": e0}, ["x", "y", "e"], kind=KIND_SWITCH)
    # interior points where a non-smooth primitive (minimum / abs / sign / where-on-equality) would show:
    #   tie   x == y bit for bit (any magnitude, incl. 0 and |x| >> eps)
    #   anti  x == -y (equal magnitudes, opposite sign), inside and outside the band
    #   zero  one argument exactly 0
    nt = max(8, nclus // 2)
    et = widths(rng, nt)
    yt = magnitudes_relative(rng, nt, et)
    tie = _expand({"x": yt.copy(), "y": yt, "e": et}, ["x", "y", "e"], zero_ref="e", kind=KIND_TIE, id0=nclus)
    na = max(8, nclus // 4)
    ea = widths(rng, na)
    xa = ea * onp.where(rng.random(na) < 0.7, rng.uniform(0.0, 0.5, na), 10.0 ** rng.uniform(-6, 2, na)) * rng.choice([-1.0, 1.0], na)
    anti = _expand({"x": xa, "y": -xa, "e": ea}, ["x", "y"], zero_ref="e", kind=KIND_ANTI, id0=nclus + nt)
    nz = max(8, nclus // 4)
    ez = widths(rng, nz)
    oz = ez * onp.where(rng.random(nz) < 0.7, rng.uniform(-1.0, 1.0, nz), rng.standard_normal(nz) * 10.0 ** rng.uniform(-6, 2, nz))
    first = rng.random(nz) < 0.5
    zero = _expand({"x": onp.where(first, 0.0, oz), "y": onp.where(first, oz, 0.0), "e": ez}, ["x", "y"], zero_ref="e",
                   kind=KIND_ZERO, id0=nclus + nt + na)
    cl = _cat([cl, tie, anti, zero])
    ef = widths(rng, nfree)
    yf = magnitudes_relative(rng, nfree, ef)
    u = rng.random(nfree)
    sg = rng.choice([-1.0, 1.0], nfree)
    t = onp.where(u < 0.30, rng.uniform(-3, 3, nfree),
        onp.where(u < 0.50, sg * (1.0 - 10.0 ** rng.uniform(-16, -1, nfree)),
        onp.where(u < 0.65, sg * (1.0 + 10.0 ** rng.uniform(-16, -1, nfree)),
        onp.where(u < 0.72, 0.0,
        onp.where(u < 0.90, sg * 10.0 ** rng.uniform(-12, 0, nfree), sg * 0.5)))))
    xf = yf + ef * t
    # fully independent arguments over +-1e6
    ind = rng.random(nfree) < 0.15
    xf = onp.where(ind, rng.standard_normal(nfree) * 10.0 ** rng.uniform(-6, 6, nfree), xf)
    # a few zero widths (EdgeCpp.smooth_distance passes eps = 0 for parallel edges)
    ef = onp.where(rng.random(nfree) < 0.01, 0.0, ef)
    return _with_free(cl, {"x": xf, "y": yf, "e": ef})


# ------------------------------------------------------------------------------------------------ abs / zmax (x, eps)

def gen_one_sided(rng, nclus, nfree, switch_fracs):
    """switches at x = f*eps for f in switch_fracs (abs: +-1/2; zmax: +-1)."""
    e = widths(rng, nclus)
    f = rng.choice(onp.array(switch_fracs, dtype=float), nclus)
    x = f * e                       # exact for f in {+-1/2, +-1}
    cl = _expand({"x": x, "e": e}, ["x", "e"], kind=KIND_SWITCH)
    nz = max(8, nclus // 3)
    ez = widths(rng, nz)
    zc = _expand({"x": onp.zeros(nz), "e": ez}, ["x", "e"], zero_ref="e", kind=KIND_ZERO, id0=nclus)   # x = 0 exactly, +-tiny
    cl = _cat([cl, zc])
    ef = widths(rng, nfree)
    u = rng.random(nfree)
    sg = rng.choice([-1.0, 1.0], nfree)
    fr = rng.choice(onp.abs(onp.array(switch_fracs, dtype=float)), nfree)
    t = onp.where(u < 0.25, rng.uniform(-3, 3, nfree),
        onp.where(u < 0.45, sg * fr * (1.0 - 10.0 ** rng.uniform(-16, -1, nfree)),
        onp.where(u < 0.60, sg * fr * (1.0 + 10.0 ** rng.uniform(-16, -1, nfree)),
        onp.where(u < 0.66, 0.0,
        onp.where(u < 0.80, sg * 10.0 ** rng.uniform(-12, 0, nfree), sg * 10.0 ** rng.uniform(0, 16, nfree))))))
    xf = ef * t
    xf = onp.where(onp.abs(xf) > 1e6, sg * 1e6 * rng.uniform(0.01, 1, nfree), xf)
    return _with_free(cl, {"x": xf, "e": ef})


# --------------------------------------------------------------------------------------------- smooth_linear (xi, l)

def gen_smooth_linear(rng, nclus, nfree):
    l = onp.minimum(widths(rng, nclus, -10.0, math.log10(0.5), special=(0.5, 0.25, 0.1, 1e-7, 1e-9)), 0.5)
    right = rng.random(nclus) < 0.5
    xi = onp.where(right, 1.0 - l, l)
    cl = _expand({"xi": xi, "l": l}, ["xi", "l"], kind=KIND_SWITCH)
    nz = max(8, nclus // 3)
    lz = onp.minimum(widths(rng, nz, -10.0, math.log10(0.5), special=(0.5, 0.25, 0.1, 1e-7, 1e-9)), 0.5)
    ends = _expand({"xi": rng.choice([0.0, 1.0], nz), "l": lz}, ["xi", "l"], zero_ref="l", kind=KIND_ZERO, id0=nclus)
    cl = _cat([cl, ends])
    lf = onp.minimum(widths(rng, nfree, -10.0, math.log10(0.5), special=(0.5, 0.25, 0.1, 1e-7, 1e-9)), 0.5)
    u = rng.random(nfree)
    t = 10.0 ** rng.uniform(-16, -1, nfree) * rng.choice([-1.0, 1.0], nfree)
    xf = onp.where(u < 0.3, rng.uniform(-0.5, 1.5, nfree),
         onp.where(u < 0.5, lf * (1.0 + t),
         onp.where(u < 0.7, 1.0 - lf * (1.0 + t),
         onp.where(u < 0.8, lf * rng.uniform(0, 3, nfree),
         onp.where(u < 0.9, 1.0 - lf * rng.uniform(0, 3, nfree), rng.choice([0.0, 1.0, 0.5], nfree))))))
    return _with_free(cl, {"xi": xf, "l": lf})


# ------------------------------------------------------------------------------------- friction (s in R^D, mu, sReg)

_TRIPLES = {1: [(1.0,)], 2: [(1.0, 0.0), (0.0, 1.0), (3.0, 4.0), (4.0, 3.0), (5.0, 12.0), (8.0, 15.0), (20.0, 21.0)],
            3: [(1.0, 0.0, 0.0), (0.0, 0.0, 1.0), (1.0, 2.0, 2.0), (2.0, 3.0, 6.0), (3.0, 4.0, 0.0), (4.0, 4.0, 7.0), (1.0, 4.0, 8.0)]}


def gen_friction(rng, nclus, nfree, dim):
    sreg = widths(rng, nclus, special=(1e-4,))
    mu = 10.0 ** rng.uniform(-2, 0.5, nclus)
    S = onp.zeros((nclus, dim))
    trip = _TRIPLES[dim]
    for i in range(nclus):
        if rng.random() < 0.7:
            t = onp.array(trip[int(rng.integers(len(trip)))])
            h = math.sqrt(float(t @ t))           # integer hypotenuse
            q = sreg[i] / h
            S[i] = t * q * rng.choice([-1.0, 1.0], dim)
            sreg[i] = h * q                        # (3q,4q,5q): exact when q has few mantissa bits; near-exact otherwise
        else:
            v = rng.standard_normal(dim)
            v = v / onp.linalg.norm(v)
            S[i] = v * sreg[i]
            sreg[i] = float(onp.sqrt(onp.sum(onp.asarray(S[i], dtype=onp.longdouble) ** 2)))
    # centre + members: move the largest component of s, or sReg, by ulps
    big = onp.argmax(onp.abs(S), axis=1)
    Ss, Rs, Ms, cid, cen = [S], [sreg], [mu], [onp.arange(nclus)], [onp.ones(nclus, bool)]
    for k in KS:
        S2 = S.copy()
        S2[onp.arange(nclus), big] = ulp_shift(S[onp.arange(nclus), big], k)
        Ss.append(S2); Rs.append(sreg); Ms.append(mu); cid.append(onp.arange(nclus)); cen.append(onp.zeros(nclus, bool))
        Ss.append(S); Rs.append(ulp_shift(sreg, k)); Ms.append(mu); cid.append(onp.arange(nclus)); cen.append(onp.zeros(nclus, bool))
    kinds = [onp.full(nclus, KIND_SWITCH)] * len(Ss)
    # s = 0 exactly (gradient of a norm-based potential is where a plain sqrt / abs would show) and +-tiny neighbours
    nz = max(8, nclus // 3)
    rz = widths(rng, nz, special=(1e-4,))
    mz = 10.0 ** rng.uniform(-2, 0.5, nz)
    Dz = rng.standard_normal((nz, dim)); Dz /= onp.linalg.norm(Dz, axis=1)[:, None]
    Ss.append(onp.zeros((nz, dim))); Rs.append(rz); Ms.append(mz); cid.append(onp.arange(nz) + nclus); cen.append(onp.ones(nz, bool))
    kinds.append(onp.full(nz, KIND_ZERO))
    for k in KS:
        Ss.append(Dz * (k * 2.0 ** -52 * rz)[:, None]); Rs.append(rz); Ms.append(mz); cid.append(onp.arange(nz) + nclus)
        cen.append(onp.zeros(nz, bool)); kinds.append(onp.full(nz, KIND_ZERO))
    # free points
    rf = widths(rng, nfree, special=(1e-4,))
    mf = 10.0 ** rng.uniform(-2, 0.5, nfree)
    V = rng.standard_normal((nfree, dim))
    V /= onp.linalg.norm(V, axis=1)[:, None]
    axis = rng.random(nfree) < 0.2
    A = onp.zeros((nfree, dim)); A[onp.arange(nfree), rng.integers(0, dim, nfree)] = rng.choice([-1.0, 1.0], nfree)
    V = onp.where(axis[:, None], A, V)
    u = rng.random(nfree)
    t = 10.0 ** rng.uniform(-16, -1, nfree) * rng.choice([-1.0, 1.0], nfree)
    rad = onp.where(u < 0.25, rng.uniform(0, 3, nfree),
          onp.where(u < 0.5, 1.0 + t,
          onp.where(u < 0.55, 0.0,
          onp.where(u < 0.75, 10.0 ** rng.uniform(-6, 0, nfree), 10.0 ** rng.uniform(0, 16, nfree)))))
    mag = onp.minimum(rad * rf, 1e6)
    Sf = V * mag[:, None]
    out = {"s": onp.concatenate(Ss + [Sf]), "sreg": onp.concatenate(Rs + [rf]), "mu": onp.concatenate(Ms + [mf]),
           "cluster": onp.concatenate(cid + [-onp.ones(nfree, int)]), "center": onp.concatenate(cen + [onp.zeros(nfree, bool)]),
           "kind": onp.concatenate(kinds + [-onp.ones(nfree, int)])}
    return out


def gen_friction_pairs(rng, n, dim):
    """Pairs (a, b) for the convexity monitors, same (mu, sReg) for both ends."""
    sreg = widths(rng, n, special=(1e-4,))
    mu = 10.0 ** rng.uniform(-2, 0.5, n)
    U = rng.standard_normal((n, dim)); U /= onp.linalg.norm(U, axis=1)[:, None]
    W = rng.standard_normal((n, dim)); W /= onp.linalg.norm(W, axis=1)[:, None]
    u = rng.random(n)
    ra = onp.where(u < 0.4, rng.uniform(0, 1, n), onp.where(u < 0.7, 1.0 - 10.0 ** rng.uniform(-8, -0.3, n), 10.0 ** rng.uniform(-4, 4, n)))
    rb = onp.where(u < 0.4, rng.uniform(1, 4, n), onp.where(u < 0.7, 1.0 + 10.0 ** rng.uniform(-8, -0.3, n), 10.0 ** rng.uniform(-4, 4, n)))
    same_ray = rng.random(n) < 0.5
    through_origin = (~same_ray) & (rng.random(n) < 0.3)
    dirb = onp.where(same_ray[:, None], U, onp.where(through_origin[:, None], -U, W))
    a = U * (ra * sreg)[:, None]
    b = dirb * (rb * sreg)[:, None]
    a = onp.clip(a, -1e6, 1e6); b = onp.clip(b, -1e6, 1e6)
    return {"a": a, "b": b, "sreg": sreg, "mu": mu}


# ------------------------------------------------------------------ EdgeCpp.smooth_distance (two edges, point, tol)

def gen_smooth_distance(rng, n):
    """Two edges sharing a corner B (A->B, B->C) and a point p placed so that the two signed plane distances differ by
    t*tol (t in a mixture around the band), tol = |n0 x n1| * smoothingTol."""
    L = 10.0 ** rng.uniform(-2, 2, n)
    B = rng.standard_normal((n, 2)) * L[:, None]
    a0 = rng.uniform(0, 2 * math.pi, n)
    turn = rng.uniform(-2.6, 2.6, n)
    turn = onp.where(rng.random(n) < 0.06, 0.0, turn)           # parallel edges: tol = 0
    l0 = L * rng.uniform(0.3, 2.0, n)
    l1 = L * rng.uniform(0.3, 2.0, n)
    t0 = onp.stack([onp.cos(a0), onp.sin(a0)], 1)
    t1 = onp.stack([onp.cos(a0 + turn), onp.sin(a0 + turn)], 1)
    A = B - t0 * l0[:, None]
    C = B + t1 * l1[:, None]
    stol = widths(rng, n, -10.0, -1.0)
    n0 = onp.stack([t0[:, 1], -t0[:, 0]], 1)
    n1 = onp.stack([t1[:, 1], -t1[:, 0]], 1)
    cr = onp.abs(n0[:, 0] * n1[:, 1] - n0[:, 1] * n1[:, 0])
    tol = cr * stol
    h = L * rng.uniform(-1.0, 1.0, n) * 10.0 ** rng.uniform(-3, 0, n)
    u = rng.random(n)
    tt = onp.where(u < 0.5, rng.uniform(-1.5, 1.5, n), onp.where(u < 0.7, rng.choice([-1.0, 1.0], n) * (1 + rng.uniform(-1e-6, 1e-6, n)),
                   rng.uniform(-1, 1, n) * 10.0 ** rng.uniform(0, 6, n)))
    P = onp.zeros((n, 2))
    for i in range(n):
        M = onp.array([n0[i], n1[i]])
        rhs = onp.array([h[i], h[i] + tt[i] * tol[i]])
        if abs(onp.linalg.det(M)) < 1e-6:
            P[i] = B[i] + n0[i] * h[i] + t0[i] * rng.uniform(-1, 1) * l0[i]
        else:
            P[i] = B[i] + onp.linalg.solve(M, rhs)
    free = rng.random(n) < 0.25
    P = onp.where(free[:, None], B + rng.standard_normal((n, 2)) * L[:, None], P)
    edges = onp.stack([onp.stack([A, B], 1), onp.stack([B, C], 1)], 1)   # (n, 2 edges, 2 points, 2 coords)
    return {"edges": edges, "p": P, "stol": stol}
