"""Seeded mesh generators (run inside workers; import optimism lazily).

All meshes are valid simplex triangulations by construction: counter-clockwise
elements of positive area, every node used.  The generators deliberately vary
what the library must be insensitive to: element numbering, cyclic rotation of
each connectivity row, grading, anisotropy, rigid/affine placement, holes.
"""
import math

import numpy as onp


def _jnp():
    import jax.numpy as jnp
    return jnp


def signed_areas(coords, conns3):
    c = onp.asarray(coords)
    t = onp.asarray(conns3)
    a, b, d = c[t[:, 0]], c[t[:, 1]], c[t[:, 2]]
    return 0.5 * ((b[:, 0] - a[:, 0]) * (d[:, 1] - a[:, 1]) - (d[:, 0] - a[:, 0]) * (b[:, 1] - a[:, 1]))


def delaunay_points(rng, nx, ny, jitter=0.3, graded=False):
    """Jittered grid on the unit square; boundary points stay on the boundary."""
    xs = onp.linspace(0.0, 1.0, nx)
    ys = onp.linspace(0.0, 1.0, ny)
    if graded:
        xs = xs ** 1.7
        ys = ys ** 1.4
    pts = []
    for j, y in enumerate(ys):
        for i, x in enumerate(xs):
            hx = min(xs[i] - xs[i - 1] if i > 0 else 9, xs[i + 1] - xs[i] if i < nx - 1 else 9)
            hy = min(ys[j] - ys[j - 1] if j > 0 else 9, ys[j + 1] - ys[j] if j < ny - 1 else 9)
            dx = rng.uniform(-jitter, jitter) * hx if 0 < i < nx - 1 else 0.0
            dy = rng.uniform(-jitter, jitter) * hy if 0 < j < ny - 1 else 0.0
            pts.append([x + dx, y + dy])
    return onp.array(pts)


def random_simplex_data(rng, nx=4, ny=4, hole=False, rotate_rows=True, shuffle_elems=True,
                        graded=False, affine=None, jitter=0.3):
    """Returns (coords, conns) numpy arrays of a valid CCW triangulation."""
    from scipy.spatial import Delaunay
    pts = delaunay_points(rng, nx, ny, jitter, graded)
    tri = Delaunay(pts).simplices.astype(int)
    area = signed_areas(pts, tri)
    flip = area < 0
    tri[flip] = tri[flip][:, [0, 2, 1]]
    area = onp.abs(area)
    keep = area > 1e-9
    if hole:
        cen = pts[tri].mean(axis=1)
        r = 0.22
        inside = onp.linalg.norm(cen - onp.array([0.5, 0.5]), axis=1) < r
        if inside.sum() < keep.sum() - 2:
            keep &= ~inside
    tri = tri[keep]
    used = onp.unique(tri)
    remap = -onp.ones(len(pts), dtype=int)
    remap[used] = onp.arange(len(used))
    pts = pts[used]
    tri = remap[tri]
    if shuffle_elems:
        tri = tri[rng.permutation(len(tri))]
    if rotate_rows:
        k = rng.integers(0, 3, size=len(tri))
        tri = onp.array([onp.roll(row, s) for row, s in zip(tri, k)])
    if affine is not None:
        A, b = affine
        assert onp.linalg.det(A) > 0
        pts = pts @ onp.asarray(A).T + onp.asarray(b)
    return pts, tri


def random_affine(rng, kind="rot"):
    th = rng.uniform(0, 2 * math.pi)
    R = onp.array([[math.cos(th), -math.sin(th)], [math.sin(th), math.cos(th)]])
    if kind == "rot":
        A = R
    elif kind == "aniso":
        A = R @ onp.diag([rng.uniform(0.5, 3.0), rng.uniform(0.1, 0.5)])
    elif kind == "shear":
        A = R @ onp.array([[1.0, rng.uniform(-0.8, 0.8)], [0.0, 1.0]]) * rng.uniform(0.3, 3.0)
    else:
        A = onp.eye(2)
    b = rng.uniform(-2, 2, size=2)
    return A, b


def boundary_sides(conns3):
    """Independent boundary extraction: [(elem, localEdge)] for edges owned by one triangle."""
    cnt = {}
    for e, row in enumerate(onp.asarray(conns3)):
        for k in range(3):
            a, b = int(row[k]), int(row[(k + 1) % 3])
            cnt.setdefault((min(a, b), max(a, b)), []).append((e, k))
    return [v[0] for v in cnt.values() if len(v) == 1]


def make_mesh(coords, conns, blocks=None, nodeSets=None, sideSets=None):
    from optimism import Mesh
    jnp = _jnp()
    conns = jnp.array(onp.asarray(conns))
    if blocks is None:
        blocks = {"block_0": jnp.arange(conns.shape[0])}
    return Mesh.construct_mesh_from_basic_data(jnp.array(onp.asarray(coords, dtype=float)), conns, blocks, nodeSets, sideSets)


def build(spec, rng=None):
    """spec: dict(kind=structured|delaunay, nx, ny, order, bubble, hole, graded, affine_kind, seed ...)
    Returns an optimism Mesh (elevated to spec['order'] if >1)."""
    from optimism import Mesh
    jnp = _jnp()
    rng = rng if rng is not None else onp.random.default_rng(spec.get("seed", 0))
    order = spec.get("order", 1)
    bubble = spec.get("bubble", False)
    if spec.get("kind", "structured") == "structured":
        xe = spec.get("xext", [0.0, 1.0])
        ye = spec.get("yext", [0.0, 1.0])
        mesh = Mesh.construct_structured_mesh(spec["nx"], spec["ny"], xe, ye)
    else:
        aff = None
        if spec.get("affine_kind"):
            aff = random_affine(rng, spec["affine_kind"])
        pts, tri = random_simplex_data(rng, spec.get("nx", 4), spec.get("ny", 4), hole=spec.get("hole", False),
                                       graded=spec.get("graded", False), affine=aff,
                                       rotate_rows=spec.get("rotate_rows", True))
        if spec.get("xshift") is not None:
            pts = pts + onp.array([spec["xshift"], 0.0])
        mesh = make_mesh(pts, tri)
    if spec.get("sidesets"):
        sides = boundary_sides(onp.asarray(mesh.conns))
        mesh = Mesh.Mesh(mesh.coords, mesh.conns, mesh.simplexNodesOrdinals, mesh.parentElement, mesh.parentElement1d,
                         mesh.blocks, mesh.nodeSets, {"boundary": jnp.array(onp.array(sides, dtype=int))})
    if order > 1:
        mesh = Mesh.create_higher_order_mesh_from_simplex_mesh(mesh, order, useBubbleElement=bubble,
                                                               createNodeSetsFromSideSets=bool(spec.get("sidesets")))
    return mesh


def with_nodesets(mesh, nodeSets):
    from optimism import Mesh
    jnp = _jnp()
    return Mesh.mesh_with_nodesets(mesh, {k: jnp.array(onp.asarray(v, dtype=int)) for k, v in nodeSets.items()})
