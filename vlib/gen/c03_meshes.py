"""C03 harness-side construction of a valid higher-order mesh, independent of the library's order elevation and of the
parent element's vertex/face/interior index tables.

Only `parentElement.coordinates` is used: local node a of every element sits at the affine image of reference node a
(reference vertices (1,0), (0,1), (0,0) are mapped to the element's CCW vertices A, B, C); nodes of neighbouring
elements that coincide geometrically get one global number (KD-tree + connected components); global numbers are
shuffled.  The result is a valid conforming mesh for *any* correct reference element, whatever its index tables say.
"""
import numpy as onp


def build_high_order_mesh(rng, pts, tri, order, bubble, blocks):
    from optimism import Interpolants, Mesh
    import jax.numpy as jnp
    from scipy.sparse import coo_matrix
    from scipy.sparse.csgraph import connected_components
    from scipy.spatial import cKDTree
    pts = onp.asarray(pts, dtype=float)
    tri = onp.asarray(tri, dtype=int)
    pe = Interpolants.make_parent_element_2d_with_bubble(order) if bubble else Interpolants.make_parent_element_2d(order)
    pe1d = Interpolants.make_parent_element_1d(order)
    ref = onp.asarray(pe.coordinates, dtype=float)
    lam = onp.column_stack((ref[:, 0], ref[:, 1], 1.0 - ref[:, 0] - ref[:, 1]))
    X = onp.einsum("ak,ekd->ead", lam, pts[tri])                      # (nE, npe, 2)
    flat = X.reshape(-1, 2)
    diam = float(onp.linalg.norm(flat.max(axis=0) - flat.min(axis=0)))
    pairs = cKDTree(flat).query_pairs(max(1e-9 * diam, 64 * 2.3e-16 * float(onp.abs(flat).max())), output_type="ndarray")
    n = len(flat)
    g = coo_matrix((onp.ones(len(pairs)), (pairs[:, 0], pairs[:, 1])), shape=(n, n))
    ncomp, lab = connected_components(g, directed=False)
    perm = rng.permutation(ncomp)
    lab = perm[lab]
    coords = onp.zeros((ncomp, 2))
    # representative coordinates: the first occurrence (vertices are reproduced exactly: lam is a unit vector there)
    first = onp.full(ncomp, -1)
    for k in range(n - 1, -1, -1):
        first[lab[k]] = k
    coords = flat[first]
    conns = lab.reshape(X.shape[0], X.shape[1])
    # vertex nodes by geometry: reference nodes sitting on the reference vertices
    vloc = [int(onp.argmin(onp.abs(ref - onp.array(v)).sum(axis=1))) for v in ((1.0, 0.0), (0.0, 1.0), (0.0, 0.0))]
    simplex = onp.unique(conns[:, vloc].ravel())
    mesh = Mesh.Mesh(jnp.array(coords), jnp.array(conns), jnp.array(simplex), pe, pe1d, blocks, None, None)
    return mesh
