"""C11 generators: viscoelastic constants over four decades and deformation/time-step histories (numpy only).

A history is a list of (H, dt, phase) with phase 'load' (deformation changes) followed by 'hold' (H fixed, random dt).
Kinds of loading: walk (random walk of the full displacement gradient), ramp (proportional), jump (one big step),
cyclic (proportional triangular wave), uniaxial (stretch along a generic or in-plane axis: exactly repeated principal
stretches in a non-axis-aligned frame), tiny (strains 1e-8..1e-5).
Kinds of hold dt sequences: random over 12 decades, increasing, decreasing, alternating extremes, constant.
"""
import math

import numpy as onp

from vlib.common import loguniform, haar_so3

KINDS = ["walk", "ramp", "jump", "cyclic", "uniaxial", "tiny", "large_jump", "large_ramp", "large_shear"]
LARGE_KINDS = ["large_jump", "large_ramp", "large_shear"]


def random_constants(rng, nbranch, wide=False):
    """wide: absolute stiffness scale over 15 decades and relaxation times over 8 (absolute floors on moduli / times)."""
    if wide:
        G = float(loguniform(rng, 1e-6, 1e9))
        return {"K": float(G * loguniform(rng, 0.7, 1e4)), "G": G,
                "Gn": [float(G * loguniform(rng, 1e-2, 1e2)) for _ in range(nbranch)],
                "tau": [float(loguniform(rng, 1e-4, 1e4)) for _ in range(nbranch)]}
    G = float(loguniform(rng, 1e-2, 1e2))
    return {"K": float(G * loguniform(rng, 0.7, 1e4)), "G": G,
            "Gn": [float(G * loguniform(rng, 1e-2, 1e2)) for _ in range(nbranch)],
            "tau": [float(loguniform(rng, 1e-2, 1e2)) for _ in range(nbranch)]}


def reference_constants(nbranch):
    """Constants of the upstream tests / design probes."""
    if nbranch == 1:
        return {"K": 855.0, "G": 0.855, "Gn": [5.0], "tau": [25.0]}
    return {"K": 100.0, "G": 1.0, "Gn": [2.0, 1.0, 0.3], "tau": [0.5, 5.0, 50.0]}


def _mask(A, form):
    A = onp.array(A, dtype=float)
    if form == "plane":
        A[2, :] = 0.0
        A[:, 2] = 0.0
    return A


def _unit(rng, form):
    A = _mask(rng.standard_normal((3, 3)), form)
    return A / onp.linalg.norm(A)


def _ok(H):
    return onp.linalg.det(H + onp.eye(3)) > 0.3 and onp.linalg.norm(H) < 2.0


def _dt(rng, taus):
    lo, hi = math.log10(1e-6 * min(taus)), math.log10(1e6 * max(taus))
    u = rng.random()
    if u < 0.15:
        return float(1e-6 * min(taus))
    if u < 0.3:
        return float(1e6 * max(taus))
    if u < 0.6:   # around one of the relaxation times
        return float(taus[int(rng.integers(len(taus)))] * 10.0 ** rng.uniform(-1.5, 1.5))
    return float(10.0 ** rng.uniform(lo, hi))


def _rodrigues(axis, th):
    a = onp.asarray(axis, dtype=float)
    a = a / onp.linalg.norm(a)
    Kx = onp.array([[0, -a[2], a[1]], [a[2], 0, -a[0]], [-a[1], a[0], 0]])
    return onp.eye(3) + math.sin(th) * Kx + (1 - math.cos(th)) * (Kx @ Kx)


def _large_history(rng, kind, form, taus, nload):
    """Large-deformation loading: principal stretches between ~0.1 and ~10 (log stretch up to +-2.3) in an arbitrary
    principal frame with a large superposed rotation, or simple shear gamma up to 5; taken in one jump or as a ramp
    (proportional in the logarithmic strain).  det F stays in [0.5, 2], cond F <= ~100."""
    plane = form == "plane"
    axis = onp.array([0.0, 0.0, 1.0]) if plane else rng.standard_normal(3)
    theta = float(rng.choice([0.0, rng.uniform(0, math.pi), rng.uniform(0, math.pi)]))
    if plane:
        Q = _rodrigues([0, 0, 1.0], rng.uniform(0, 2 * math.pi))
    else:
        Q = haar_so3(rng)
    out = []
    if kind == "large_shear":
        gam = float(loguniform(rng, 0.5, 5.0)) * float(rng.choice([-1.0, 1.0]))

        def Fof(sv):
            S = onp.eye(3)
            S[0, 1] = sv * gam
            return _rodrigues(axis, sv * theta) @ Q @ S @ Q.T
        jump = rng.random() < 0.4
    else:
        lmax = float(rng.uniform(0.8, 2.3))
        sub = str(rng.choice(["uniaxial", "biaxial", "general", "general"]))
        if sub == "uniaxial":
            l = onp.array([1.0, -0.5, -0.5])
        elif sub == "biaxial":
            l = onp.array([0.5, 0.5, -1.0])
        else:
            l = rng.uniform(-1, 1, 3)
            l = l - onp.mean(l)
        if plane:
            l = onp.array([l[0], -l[0] if rng.random() < 0.5 else l[1], 0.0])
        l = l * float(rng.choice([-1.0, 1.0])) * lmax / onp.max(onp.abs(l))
        if rng.random() < 0.4:                      # volume change, J in [0.5, 2]
            v = rng.uniform(-0.23, 0.23)
            l = l + (onp.array([v, v, 0.0]) * 1.5 if plane else v)
        l = onp.clip(l, -2.3, 2.3)

        def Fof(sv):
            return _rodrigues(axis, sv * theta) @ (Q * onp.exp(sv * l)) @ Q.T
        jump = kind == "large_jump"
    for k in range(1, nload + 1):
        sv = 1.0 if jump else k / nload
        out.append((Fof(sv) - onp.eye(3), _dt(rng, taus), "load"))
    return out


def make_history(rng, kind, form, taus, nload, nhold):
    """-> list of (H, dt, phase)."""
    H = onp.zeros((3, 3))
    out = []
    amp = float(loguniform(rng, 1e-3, 0.4))
    if kind == "tiny":
        amp = float(loguniform(rng, 1e-10, 1e-5))
    if kind in LARGE_KINDS:
        out = _large_history(rng, kind, form, taus, nload)
        H = out[-1][0]
    if kind in LARGE_KINDS:
        pass
    elif kind in ("walk", "tiny"):
        for _ in range(nload):
            for _t in range(20):
                dH = _unit(rng, form) * amp * float(loguniform(rng, 0.05, 1.0))
                if _ok(H + dH):
                    H = H + dH
                    break
            out.append((H.copy(), _dt(rng, taus), "load"))
    elif kind in ("ramp", "cyclic", "uniaxial"):
        if kind == "uniaxial":
            if form == "plane":
                th = rng.uniform(0, 2 * math.pi)
                n = onp.array([math.cos(th), math.sin(th), 0.0])
            else:
                n = rng.standard_normal(3)
                n /= onp.linalg.norm(n)
            D = onp.outer(n, n)
            if rng.random() < 0.3 and form != "plane":
                D = onp.eye(3) - D          # equibiaxial
            if rng.random() < 0.3:          # superposed rigid rotation does not change the stretches
                Q = haar_so3(rng) if form != "plane" else None
            else:
                Q = None
        else:
            D, Q = _unit(rng, form), None
        per = int(rng.integers(3, 9))
        for k in range(1, nload + 1):
            s = amp * (k / nload if kind != "cyclic" else (2.0 / math.pi) * math.asin(math.sin(2 * math.pi * k / per)))
            Hk = s * D
            if Q is not None:
                Hk = Q @ (onp.eye(3) + Hk) - onp.eye(3)
            if not _ok(Hk):
                Hk = H
            H = Hk
            out.append((H.copy(), _dt(rng, taus), "load"))
    elif kind == "jump":
        for _t in range(50):
            H = _unit(rng, form) * amp
            if _ok(H):
                break
            amp *= 0.5
        out.append((H.copy(), _dt(rng, taus), "load"))
        for _ in range(nload - 1):   # more load steps at the same H are holds already; keep one tiny-dt re-load
            out.append((H.copy(), _dt(rng, taus), "load"))
    else:
        raise ValueError(kind)
    # hold phase
    seq = str(rng.choice(["random", "random", "increasing", "decreasing", "alternating", "constant"]))
    dts = [_dt(rng, taus) for _ in range(nhold)]
    if seq == "increasing":
        dts = sorted(dts)
    elif seq == "decreasing":
        dts = sorted(dts, reverse=True)
    elif seq == "alternating":
        dts = [(1e-6 * min(taus) if k % 2 == 0 else 1e6 * max(taus)) * 10.0 ** rng.uniform(0, 1) * (1.0 if k % 2 == 0 else 0.1) for k in range(nhold)]
    elif seq == "constant":
        dts = [dts[0]] * nhold
    for dt in dts:
        out.append((H.copy(), float(dt), "hold"))
    return out, seq
