"""C13 harness-side writers: Exodus (netCDF4) and JSON mesh files, tri6 construction, random sets.

Independent of optimism: the 6-node connectivity is built here from the vertex
triangulation (mid-side node per unique edge, Exodus order v0 v1 v2 m01 m12 m20),
never by inverting the library's permutation table.
"""
import json

import numpy as onp


def random_partition(rng, n, k):
    """Split range(n) into k non-empty contiguous chunks (Exodus blocks are contiguous element ranges)."""
    k = max(1, min(k, n))
    cuts = onp.sort(rng.choice(onp.arange(1, n), size=k - 1, replace=False)) if k > 1 else onp.array([], dtype=int)
    bounds = [0] + cuts.tolist() + [n]
    return [onp.arange(bounds[i], bounds[i + 1]) for i in range(k)]


def random_node_sets(rng, n_nodes, names, allow_empty=False):
    out = {}
    for nm in names:
        lo = 0 if allow_empty and rng.random() < 0.25 else 1
        k = int(rng.integers(lo, max(lo + 1, min(n_nodes, 8) + 1)))
        out[nm] = onp.sort(rng.choice(n_nodes, size=k, replace=False)).astype(int)
    return out


def random_side_sets(rng, conns3, names, allow_empty=False, boundary_only=False):
    """Side sets as (k,2) arrays of (element, localSide).  Mix of boundary sides and arbitrary sides."""
    from vlib.gen.meshes import boundary_sides
    bs = boundary_sides(conns3)
    nE = len(conns3)
    out = {}
    for nm in names:
        if allow_empty and rng.random() < 0.25:
            out[nm] = onp.zeros((0, 2), dtype=int)
            continue
        if boundary_only or rng.random() < 0.6:
            k = int(rng.integers(1, min(len(bs), 7) + 1))
            idx = rng.choice(len(bs), size=k, replace=False)
            out[nm] = onp.array([bs[i] for i in idx], dtype=int).reshape(-1, 2)
        else:
            k = int(rng.integers(1, 7))
            out[nm] = onp.column_stack((rng.integers(0, nE, size=k), rng.integers(0, 3, size=k))).astype(int)
    return out


def make_tri6(rng, pts, tri, shuffle_nodes=True):
    """6-node triangles in Exodus order from a vertex triangulation.  Node numbers are shuffled so that vertices and
    mid-side nodes interleave (a reader may not assume 'vertices first').  Returns (coords6, conn6_exodus)."""
    pts = onp.asarray(pts, dtype=float)
    tri = onp.asarray(tri, dtype=int)
    mid = {}
    coords = [p for p in pts]
    conn = onp.zeros((len(tri), 6), dtype=int)
    for e, row in enumerate(tri):
        conn[e, :3] = row
        for k in range(3):
            a, b = int(row[k]), int(row[(k + 1) % 3])
            key = (min(a, b), max(a, b))
            if key not in mid:
                mid[key] = len(coords)
                coords.append(0.5 * (pts[a] + pts[b]))
            conn[e, 3 + k] = mid[key]
    coords = onp.array(coords)
    if shuffle_nodes:
        perm = rng.permutation(len(coords))          # new number of old node i is perm[i]
        newc = onp.zeros_like(coords)
        newc[perm] = coords
        coords = newc
        conn = perm[conn]
    return coords, conn


def _names_var(ds, var, dim, names, len_dim):
    v = ds.createVariable(var, "S1", (dim, len_dim), fill_value=b"\x00")
    n = len(ds.dimensions[len_dim])
    arr = onp.zeros((len(names), n), dtype="S1")
    for i, s in enumerate(names):
        for j, ch in enumerate(s.encode()):
            arr[i, j] = bytes([ch])
    v.set_auto_mask(False)
    v[:] = arr


def write_exodus(fn, coords, block_conns, block_names, elem_type, node_sets, side_sets, elem_num_map=None,
                 fmt="NETCDF3_64BIT_OFFSET", len_name=256, int_type="i4", extras=True):
    """block_conns: list of (n_i, npe) 0-based arrays in *Exodus* node order; node_sets: list of (name, ids0);
    side_sets: list of (name, (k,2) array of 0-based (elem, side)); names may be '' (unnamed)."""
    import netCDF4
    ds = netCDF4.Dataset(fn, "w", format=fmt)
    try:
        ds.createDimension("len_name", len_name)
        ds.createDimension("time_step", None)
        ds.createDimension("num_dim", 2)
        ds.createDimension("num_nodes", len(coords))
        ne = sum(len(b) for b in block_conns)
        ds.createDimension("num_elem", ne)
        ds.createDimension("num_el_blk", len(block_conns))
        if extras:
            ds.createVariable("time_whole", "f8", ("time_step",))
            ds.createVariable("eb_status", "i4", ("num_el_blk",))[:] = 1
            v = ds.createVariable("eb_prop1", "i4", ("num_el_blk",))
            v.setncattr("name", "ID")
            v[:] = onp.arange(len(block_conns)) + 1
            ds.setncattr("title", "c13 harness")
            ds.setncattr("maximum_name_length", onp.int32(32))
        ds.createVariable("coordx", "f8", ("num_nodes",))[:] = coords[:, 0]
        ds.createVariable("coordy", "f8", ("num_nodes",))[:] = coords[:, 1]
        _names_var(ds, "eb_names", "num_el_blk", block_names, "len_name")
        if extras:
            _names_var(ds, "coor_names", "num_dim", ["x", "y"], "len_name")
        for i, b in enumerate(block_conns):
            ds.createDimension("num_el_in_blk%d" % (i + 1), len(b))
            ds.createDimension("num_nod_per_el%d" % (i + 1), b.shape[1])
            v = ds.createVariable("connect%d" % (i + 1), int_type, ("num_el_in_blk%d" % (i + 1), "num_nod_per_el%d" % (i + 1)))
            v.elem_type = elem_type
            v[:] = onp.asarray(b) + 1
        if node_sets:
            ds.createDimension("num_node_sets", len(node_sets))
            _names_var(ds, "ns_names", "num_node_sets", [n for n, _ in node_sets], "len_name")
            for i, (_, ids) in enumerate(node_sets):
                ds.createDimension("num_nod_ns%d" % (i + 1), len(ids))
                ds.createVariable("node_ns%d" % (i + 1), int_type, ("num_nod_ns%d" % (i + 1),))[:] = onp.asarray(ids) + 1
                if extras:
                    ds.createVariable("dist_fact_ns%d" % (i + 1), "f8", ("num_nod_ns%d" % (i + 1),))[:] = 1.0
        if side_sets:
            ds.createDimension("num_side_sets", len(side_sets))
            _names_var(ds, "ss_names", "num_side_sets", [n for n, _ in side_sets], "len_name")
            for i, (_, es) in enumerate(side_sets):
                es = onp.asarray(es).reshape(-1, 2)
                ds.createDimension("num_side_ss%d" % (i + 1), len(es))
                ds.createVariable("elem_ss%d" % (i + 1), int_type, ("num_side_ss%d" % (i + 1),))[:] = es[:, 0] + 1
                ds.createVariable("side_ss%d" % (i + 1), int_type, ("num_side_ss%d" % (i + 1),))[:] = es[:, 1] + 1
        if elem_num_map is not None:
            ds.createVariable("elem_num_map", int_type, ("num_elem",))[:] = onp.asarray(elem_num_map)
            if extras:
                ds.createVariable("node_num_map", int_type, ("num_nodes",))[:] = onp.arange(len(coords)) + 1
    finally:
        ds.close()


def write_json_mesh(fn, coords, conns, node_sets, side_sets):
    """The layout of optimism/test/patch.json: 0-based; sideSets name -> [[elements], [sides]]."""
    d = {"coordinates": onp.asarray(coords).tolist(), "connectivity": onp.asarray(conns).tolist(),
         "nodeSets": {k: onp.asarray(v).tolist() for k, v in node_sets.items()},
         "sideSets": {k: [onp.asarray(v).reshape(-1, 2)[:, 0].tolist(), onp.asarray(v).reshape(-1, 2)[:, 1].tolist()] for k, v in side_sets.items()}}
    with open(fn, "w", encoding="utf-8") as f:
        json.dump(d, f)
