"""C09 generators: admissible J2 constants and displacement-gradient histories (numpy only).

History kinds (one generator object per history; `next` sees the current state so that steps can be constructed
relative to the current yield surface):

 monotonic        proportional, monotonically growing amplitude
 reversing        proportional, triangular wave (cyclic plasticity)
 nonproportional  random walk of the full displacement gradient
 tiny_large       increments of size 1e-8 and of size 0.3 (and a few in between)
 at_yield         every other step is constructed to land with  trial Mises = flow stress + delta*Y0,
                  delta in {0, +-few ulp, the yield tolerance 1e-10 (+- 1e-6 rel.), +-1e-12, 1e-9, 1e-6}
 repeated_stretch uniaxial / equibiaxial stretching along a fixed generic (or in-plane) axis: the tensors that reach
                  the eigen-solver have an exactly repeated eigenvalue pair in a non-axis-aligned frame
 volumetric       zero / pure dilation / sub-threshold deviator trial states (dummy flow direction branch), mixed
                  with ordinary steps

Forms: 'plane_strain' (2x2 gradient padded with zeros), 'block' (2+1 block structure, H33 free), '3d'.
"""
import math

import numpy as onp

from vlib.common import loguniform, haar_so3, inplane_rot
from vlib.oracles import c09_numpy as ref

KINDS = ["monotonic", "reversing", "nonproportional", "tiny_large", "at_yield", "repeated_stretch", "volumetric", "large_stretch"]
EPS = ref.EPS

AT_YIELD_DELTAS = [0.0, 0.0, 4 * EPS, -4 * EPS, 64 * EPS, -64 * EPS,
                   ref.TOL_SOLVER, ref.TOL_SOLVER * (1 - 1e-6), ref.TOL_SOLVER * (1 + 1e-6), ref.TOL_SOLVER * (1 + 1e-3),
                   -1e-12, 1e-12, 1e-9, -1e-9, 1e-6]


# ------------------------------------------------------------------ constants

YS_BANDS = [-7, -6, -5, -4, -3, -2]     # decades of the yield strain Y0/(3 mu); the last band is [1e-2, 3e-2]


def yield_strain(c):
    return float(c["Y0"]) / (1.5 * float(c["E"]) / (1.0 + float(c["nu"])))


def ys_band(c):
    return int(min(-2, max(-9, math.floor(math.log10(yield_strain(c))))))


def random_constants(rng, hard, rate, boundary=None, band=None):
    """Admissible constants over decades.  boundary in {None,'perfect','voce_ysat_eq_y0','voce_saturated'}.

    band=None: E/Y0 in [20, 5e3], Y0 in [1e-2, 1e3] (ordinary metals).  band=b in YS_BANDS: the yield strain Y0/(3 mu) is
    log-uniform in decade b (1e-7 ... 3e-2) independently of everything else, and the stiffness scale E is log-uniform
    in [1e-3, 1e9]; the hardening reference strain is then either absolute or a multiple of the yield strain."""
    nu = float(rng.choice([0.0, 0.25, 0.3, 0.45, 0.49, rng.uniform(0.0, 0.49)]))
    if band is None:
        Y0 = float(loguniform(rng, 1e-2, 1e3))
        c = {"E": float(Y0 * loguniform(rng, 20.0, 5e3)), "nu": nu, "Y0": Y0}
    else:
        if band == -9:      # below the library's absolute zero-strain guard: |dev Ee| at yield = 1.22 ys < 1e-8
            ys = float(loguniform(rng, 1e-9, 6e-9))
        else:
            ys = 10.0 ** rng.uniform(band, band + 1) if band < -2 else float(loguniform(rng, 1e-2, 3e-2))
        E = float(loguniform(rng, 1e-3, 1e9))
        Y0 = float(ys * 1.5 * E / (1.0 + nu))
        c = {"E": E, "nu": nu, "Y0": Y0}
    ey = c["Y0"] / c["E"]
    rel = band is not None and rng.random() < 0.5      # hardening reference strain relative to the yield strain
    if hard == "linear":
        c["H"] = float(c["E"] * loguniform(rng, 1e-4, 0.5))
        if boundary == "perfect":
            c["H"] = 0.0
    elif hard == "voce":
        c["Ysat"] = float(Y0 * (1.0 + loguniform(rng, 0.05, 4.0)))
        c["eps0"] = float(ey * loguniform(rng, 0.3, 100.0)) if rel else float(loguniform(rng, 1e-3, 0.5))
        if boundary == "voce_ysat_eq_y0":
            c["Ysat"] = float(Y0 * (1.0 + float(rng.choice([0.0, 0.0, 2 * EPS, 1e-12, 1e-8]))))
        if boundary == "voce_saturated":
            c["eps0"] = float(loguniform(rng, 1e-5, 1e-3))
    elif hard == "power":
        c["n"] = float(loguniform(rng, 1.5, 20.0))
        c["eps0"] = float(ey * loguniform(rng, 0.1, 100.0)) if rel else float(loguniform(rng, 1e-4, 1e-1))
    if rate:
        c["S"] = float(Y0 * loguniform(rng, 1e-2, 2.0))
        c["m"] = float(rng.choice([1.0, 2.0, 5.0, 20.0, loguniform(rng, 1.0, 20.0)]))
        c["epsDot0"] = float(loguniform(rng, 1e-4, 1e2))
    return c


def reference_constants(hard, rate, boundary=None):
    """The constants of the upstream tests / design probes (E=100, nu=0.3, Y0=1)."""
    c = {"E": 100.0, "nu": 0.3, "Y0": 1.0}
    if hard == "linear":
        c["H"] = 0.0 if boundary == "perfect" else 5.0
    elif hard == "voce":
        c["Ysat"], c["eps0"] = 2.0, 0.05
        if boundary == "voce_ysat_eq_y0":
            c["Ysat"] = 1.0
        if boundary == "voce_saturated":
            c["eps0"] = 2e-4
    elif hard == "power":
        c["n"], c["eps0"] = 3.0, 0.01
    if rate:
        c["S"], c["m"], c["epsDot0"] = 0.5, 2.0, 1.0
    return c


# ------------------------------------------------------------------ histories

def _mask(A, form):
    A = onp.array(A, dtype=float)
    if form != "3d":
        A[2, :2] = 0.0
        A[:2, 2] = 0.0
    if form == "plane_strain":
        A[2, 2] = 0.0
    return A


def _unit(rng, form):
    A = _mask(rng.standard_normal((3, 3)), form)
    return A / onp.linalg.norm(A)


def _unit_dev_sym(rng, form):
    return ref.random_unit_deviators(rng, 1, form)[0]


def _detok(H):
    return onp.linalg.det(H + onp.eye(3)) > 0.2 and onp.linalg.norm(H) < 4.5


class History:
    def __init__(self, rng, kind, form, kin, law, nsteps, scale="absolute"):
        self.rng, self.kind, self.form, self.kin, self.law, self.n = rng, kind, form, kin, law, int(nsteps)
        self.ey = law.Y0 / law.E                      # yield strain scale
        # scale == 'yield': every amplitude is a multiple of the yield strain (same elastic/plastic mix at any Y0/E);
        # 'absolute': upper ends of the amplitude ranges are absolute strains (0.05 ... 0.4)
        self.ys = scale == "yield"
        r = rng
        self.dt_mode = r.choice(["wide", "wide", "fixed"])
        self.dt0 = 10.0 ** r.uniform(-3, 3)
        if kind in ("monotonic", "reversing"):
            self.D = _unit(r, form)
            self.amp = float(loguniform(r, 1.5 * self.ey, min(0.4, 100 * self.ey))) if self.ys else float(loguniform(r, 3 * self.ey, 0.4))
            if kind == "monotonic":
                w = r.random(self.n) ** 2 + 1e-3
                self.s = self.amp * onp.cumsum(w) / onp.sum(w)
            else:
                per = int(r.integers(4, 11))
                k = onp.arange(1, self.n + 1)
                self.s = self.amp * (2.0 / math.pi) * onp.arcsin(onp.sin(2 * math.pi * k / per))
        if kind == "large_stretch":
            # principal stretches between ~0.1 and ~10 (log stretch up to +-2.3) in an arbitrary frame with a superposed
            # rotation of up to 180 degrees, or simple shear gamma up to 5; ramp or triangular wave; det F in [0.5, 2]
            plane = form != "3d"
            self.axis = onp.array([0.0, 0.0, 1.0]) if plane else r.standard_normal(3)
            self.axis = self.axis / onp.linalg.norm(self.axis)
            self.theta = float(r.choice([0.0, r.uniform(0, math.pi)]))
            self.Q = inplane_rot(r.uniform(0, 2 * math.pi)) if plane else haar_so3(r)
            self.shear = r.random() < 0.3
            if self.shear:
                self.gam = float(loguniform(r, 0.5, 5.0)) * float(r.choice([-1.0, 1.0]))
            else:
                l = r.uniform(-1, 1, 3)
                l = l - onp.mean(l)
                if plane:
                    l = onp.array([l[0], -l[0], 0.0])
                l = l * float(r.uniform(0.8, 2.3)) / onp.max(onp.abs(l))
                if r.random() < 0.3 and not plane:
                    l = l + r.uniform(-0.23, 0.23)
                self.l = onp.clip(l, -2.3, 2.3)
            k = onp.arange(1, self.n + 1)
            per = int(r.integers(4, 11))
            self.s = k / self.n if r.random() < 0.6 else (2.0 / math.pi) * onp.arcsin(onp.sin(2 * math.pi * k / per))
        if kind == "repeated_stretch":
            if form == "3d":
                nvec = r.standard_normal(3)
            else:
                th = r.uniform(0, 2 * math.pi)
                nvec = onp.array([math.cos(th), math.sin(th), 0.0])
            nvec /= onp.linalg.norm(nvec)
            self.sub = str(r.choice(["uniaxial", "equibiaxial"])) if form == "3d" else "uniaxial"
            nn = onp.outer(nvec, nvec)
            self.D = nn if self.sub == "uniaxial" else (onp.eye(3) - nn)
            self.amp = float(loguniform(r, 1.5 * self.ey, min(0.3, 100 * self.ey))) if self.ys else float(loguniform(r, 3 * self.ey, 0.3))
            per = int(r.integers(4, 11))
            k = onp.arange(1, self.n + 1)
            if r.random() < 0.5:
                self.s = self.amp * k / self.n
            else:
                self.s = self.amp * (2.0 / math.pi) * onp.arcsin(onp.sin(2 * math.pi * k / per))

    def _dt(self):
        if self.dt_mode == "fixed":
            return float(self.dt0)
        return float(10.0 ** self.rng.uniform(-3, 3))

    def _walk(self, H, lo, hi):
        for _ in range(20):
            dH = _unit(self.rng, self.form) * float(loguniform(self.rng, lo, hi))
            if _detok(H + dH):
                return H + dH
        return H if _detok(H) else onp.zeros((3, 3))     # no admissible step found: hold (never return an inverted F)

    def _land(self, plastic_old, Ee_target):
        """Displacement gradient whose trial elastic strain is Ee_target (up to rounding)."""
        r = self.rng
        if self.kin == "small":
            W = _mask(r.standard_normal((3, 3)), self.form)
            W = 0.5 * (W - W.T) * float(loguniform(r, 1e-6, 1e-2))
            return Ee_target + plastic_old + W
        if self.form == "3d":
            R = haar_so3(r) if r.random() < 0.7 else onp.eye(3)
        else:
            R = inplane_rot(r.uniform(0, 2 * math.pi)) if r.random() < 0.7 else onp.eye(3)
        if self.kin == "sethhill":
            # 2 (C^(1/4) - I) = Ee_target + eps_p  ->  U = C^(1/2) = (I + (Ee_target + eps_p)/2)^2
            A = onp.eye(3) + 0.5 * (Ee_target + plastic_old)
            A = 0.5 * (A + A.T)
            if onp.min(onp.linalg.eigvalsh(A)) > 0.2:
                return R @ (A @ A) - onp.eye(3)
            return 0.5 * (Ee_target + plastic_old)          # not reachable with a positive stretch: an ordinary step instead
        F = R @ ref.expm_sym(Ee_target) @ plastic_old
        return F - onp.eye(3)

    def next(self, k, H, st):
        """-> (H_new, dt, tag, info)"""
        r = self.rng
        kind = self.kind
        dt = self._dt()
        e_old, pl_old = ref.split_state(st)
        if kind == "large_stretch":
            sv = float(self.s[k])
            a = self.axis
            Kx = onp.array([[0, -a[2], a[1]], [a[2], 0, -a[0]], [-a[1], a[0], 0]])
            R = onp.eye(3) + math.sin(sv * self.theta) * Kx + (1 - math.cos(sv * self.theta)) * (Kx @ Kx)
            if self.shear:
                S = onp.eye(3)
                S[0, 1] = sv * self.gam
                F = R @ self.Q @ S @ self.Q.T
            else:
                F = R @ (self.Q * onp.exp(sv * self.l)) @ self.Q.T
            return F - onp.eye(3), dt, "large", None
        if kind in ("monotonic", "reversing", "repeated_stretch"):
            Hn = self.s[k] * self.D
            if not _detok(Hn):
                Hn = H
            return Hn, dt, "prop", None
        if kind == "nonproportional":
            return self._walk(H, 0.05 * self.ey, min(0.05, 30 * self.ey) if self.ys else 0.05), dt, "walk", None
        if kind == "tiny_large":
            u = r.random()
            if u < 0.4:
                mag, tag = 1e-8, "tiny"
            elif u < 0.8:
                mag, tag = 0.3, "large"
            else:
                mag, tag = (float(self.ey * loguniform(r, 0.05, 30.0)) if self.ys else float(loguniform(r, 1e-6, 1e-1))), "mid"
            for _ in range(20):
                dH = _unit(r, self.form) * mag
                if _detok(H + dH):
                    return H + dH, dt, tag, None
            return (H if _detok(H) else onp.zeros((3, 3))), dt, "hold", None
        form = "block" if self.form == "plane_strain" else self.form
        if kind == "at_yield":
            if k % 2 == 1 or (k == 0 and r.random() < 0.3):
                return self._walk(H, 1.5 * self.ey, 50 * self.ey if self.ys else max(0.05, 5 * self.ey)), dt, "kick", None
            delta = float(AT_YIELD_DELTAS[int(r.integers(len(AT_YIELD_DELTAS)))])
            Y = float(self.law.flow_static(e_old))
            s = (Y + delta * self.law.Y0) / (2.0 * self.law.mu * ref.SQ32)
            Dh = ref.random_unit_deviators(r, 1, form)[0]
            vol = float(r.choice([0.0, r.uniform(-1, 1) * 3 * self.ey]))
            Hn = self._land(pl_old, s * Dh + vol / 3.0 * onp.eye(3))
            return Hn, dt, "land", {"delta": delta}
        if kind == "volumetric":
            u = r.random()
            if u < 0.55:
                sub = str(r.choice(["zero", "dilation", "subthreshold", "just_above"]))
                a = float(r.uniform(-0.1, 0.1)) if sub != "zero" else 0.0
                s = {"zero": 0.0, "dilation": 0.0, "subthreshold": 0.9e-8, "just_above": 1.1e-8}[sub]
                Dh = ref.random_unit_deviators(r, 1, form)[0]
                Hn = self._land(pl_old, s * Dh + a / 3.0 * onp.eye(3))
                if k == 0 and sub == "zero" and self.kin == "large":
                    Hn = onp.zeros((3, 3))
                return Hn, dt, "vol_" + sub, None
            return self._walk(H, 0.5 * self.ey, min(0.05, 30 * self.ey) if self.ys else 0.05), dt, "walk", None
        raise ValueError(kind)
