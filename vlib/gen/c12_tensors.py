"""C12 -- class-stratified generators of symmetric 3x3 tensors (numpy only).

A tensor is described by (spectrum kind, orientation kind, scale).  `make_batch` returns the array and the recipe.
"""
import math

import numpy as onp

from vlib.common import haar_so3, inplane_rot

SPECTRA_GAP = ["gap_%d" % k for k in range(17)]
SPECTRA_BASE = ["distinct", "repeated_pair", "triple", "near_triple"]
SPECTRA_DEFICIENT = ["rank2", "rank1", "rank0"]
SPECTRA_SIGNED = ["mixed_signs", "negative", "traceless"]
ORIENTATIONS = ["identity", "permutation", "inplane", "haar"]

_PERMS = [(0, 1, 2), (0, 2, 1), (1, 0, 2), (1, 2, 0), (2, 0, 1), (2, 1, 0)]


def spectrum(rng, kind, domain):
    """O(1) eigenvalues.  domain: 'pd' (positive), 'psd' (non-negative), 'sym' (any sign)."""
    def pos(n=None):
        return rng.uniform(0.3, 3.0, n)

    if kind == "distinct":
        while True:
            lam = pos(3) if domain != "sym" else rng.uniform(-3.0, 3.0, 3)
            s = onp.sort(lam)
            if onp.diff(s).min() > 0.05 * onp.abs(s).max():
                return lam
    if kind.startswith("gap_"):
        k = int(kind[4:])
        g = 10.0 ** (-k) * (rng.uniform(1.0, 3.0) if k > 0 else rng.uniform(0.3, 1.0))
        a, b = pos(), pos()
        while abs(b - a) < 0.1 * a:
            b = pos()
        lam = onp.array([a, a * (1.0 + g), b])
        if domain == "sym" and rng.random() < 0.4:
            lam = lam * onp.array([1.0, 1.0, -1.0]) if rng.random() < 0.5 else -lam
        return lam[list(_PERMS[int(rng.integers(6))])]
    if kind == "repeated_pair":
        a, b = pos(), pos()
        while abs(b - a) < 0.1 * a:
            b = pos()
        lam = onp.array([a, a, b])
        if domain == "sym" and rng.random() < 0.4:
            lam = lam * onp.array([1.0, 1.0, -1.0]) if rng.random() < 0.5 else -lam
        return lam[list(_PERMS[int(rng.integers(6))])]
    if kind == "triple":
        a = pos()
        if domain == "sym" and rng.random() < 0.3:
            a = -a
        return onp.array([a, a, a])
    if kind == "near_triple":
        a = pos()
        g = 10.0 ** rng.uniform(-14, -4)
        return a * (1.0 + g * onp.array([0.0, rng.uniform(0.2, 1.0), -rng.uniform(0.2, 1.0)]))[list(_PERMS[int(rng.integers(6))])]
    if kind == "rank2":
        a, b = pos(), pos()
        if rng.random() < 0.3:
            b = a
        return onp.array([0.0, a, b])[list(_PERMS[int(rng.integers(6))])]
    if kind == "rank1":
        return onp.array([0.0, 0.0, pos()])[list(_PERMS[int(rng.integers(6))])]
    if kind == "rank0":
        return onp.zeros(3)
    if kind == "mixed_signs":
        lam = pos(3) * onp.array([-1.0, 1.0, 1.0 if rng.random() < 0.5 else -1.0])
        return lam[list(_PERMS[int(rng.integers(6))])]
    if kind == "negative":
        return -pos(3)
    if kind == "traceless":
        a, b = pos(), pos()
        return onp.array([a, b, -(a + b)])[list(_PERMS[int(rng.integers(6))])]
    raise ValueError(kind)


def rotation(rng, kind):
    if kind == "identity":
        return onp.eye(3)
    if kind == "permutation":
        return onp.eye(3)[:, list(_PERMS[int(rng.integers(1, 6))])]
    if kind == "inplane":
        R = inplane_rot(rng.uniform(0.0, 2.0 * math.pi))
        if rng.random() < 0.3:     # the block may also couple (y,z) or (z,x): cyclic relabelling of the axes
            c = onp.eye(3)[:, [1, 2, 0]] if rng.random() < 0.5 else onp.eye(3)[:, [2, 0, 1]]
            R = c @ R @ c.T
        return R
    if kind == "haar":
        return haar_so3(rng)
    raise ValueError(kind)


def compose(lam, Q, scale, exact_diag):
    if exact_diag:
        # Q is a (signed) permutation: the result is exactly diagonal
        d = onp.abs(Q) @ lam
        return onp.diag(d) * scale
    A = Q @ onp.diag(lam) @ Q.T
    return 0.5 * (A + A.T) * scale


def make_batch(rng, n, spec_kind, orient, domain, scale_exp=(-20.0, 20.0), pivot=None):
    """n tensors of one (spectrum kind, orientation) class with log-uniform scales.  pivot (0/1/2/"cycle"/None): cyclically relabel
    the axes of Haar-oriented tensors so that the routine's column-pivoting picks that row (decided with the numpy replica)."""
    from vlib.oracles.c12_ref import pivot_index
    out = onp.zeros((n, 3, 3))
    lams = onp.zeros((n, 3))
    scales = onp.zeros(n)
    for i in range(n):
        lam = spectrum(rng, spec_kind, domain)
        Q = rotation(rng, orient)
        s = 10.0 ** rng.uniform(*scale_exp)
        A = compose(lam, Q, s, orient in ("identity", "permutation"))
        if pivot is not None and orient == "haar":
            want = (i % 3) if pivot == "cycle" else pivot
            p = pivot_index(A[None])[0]
            if p >= 0 and p != want:
                shift = (want - p) % 3
                c = onp.eye(3)[:, [(j - shift) % 3 for j in range(3)]]
                A = c.T @ A @ c
                A = 0.5 * (A + A.T)
        out[i] = A
        lams[i] = lam * s
        scales[i] = s
    return out, lams, scales


def random_sym(rng, n, scale=1.0):
    E = rng.standard_normal((n, 3, 3)) * scale
    return 0.5 * (E + onp.swapaxes(E, 1, 2))


def unit_sym_directions():
    """The six symmetric unit perturbations e_i e_j^T + e_j e_i^T (normalised)."""
    out = []
    for i in range(3):
        for j in range(i, 3):
            E = onp.zeros((3, 3))
            E[i, j] = 1.0
            E[j, i] = 1.0
            out.append(E)
    return onp.array(out)
