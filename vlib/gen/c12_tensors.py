"""C12 -- class-stratified generators of symmetric 3x3 tensors (numpy only).

A tensor is described by (spectrum kind, orientation kind, scale).  `make_batch` returns the array and the recipe.
"""
import math

import numpy as onp

from vlib.common import haar_so3, inplane_rot

SPECTRA_GAP = ["gap_%d" % k for k in range(17)]
SPECTRA_BASE = ["distinct", "repeated_pair", "triple", "near_triple"]
SPECTRA_DEFICIENT = ["rank2", "rank1", "rank0"]
SPECTRA_SIGNED = ["mixed_signs", "negative", "traceless"]
ORIENTATIONS = ["identity", "permutation", "inplane", "haar"]

_PERMS = [(0, 1, 2), (0, 2, 1), (1, 0, 2), (1, 2, 0), (2, 0, 1), (2, 1, 0)]


def spectrum(rng, kind, domain):
    """O(1) eigenvalues.  domain: 'pd' (positive), 'psd' (non-negative), 'sym' (any sign)."""
    def pos(n=None):
        return rng.uniform(0.3, 3.0, n)

    if kind == "distinct":
        while True:
            lam = pos(3) if domain != "sym" else rng.uniform(-3.0, 3.0, 3)
            s = onp.sort(lam)
            if onp.diff(s).min() > 0.05 * onp.abs(s).max():
                return lam
    if kind.startswith("gap_"):
        k = int(kind[4:])
        g = 10.0 ** (-k) * (rng.uniform(1.0, 3.0) if k > 0 else rng.uniform(0.3, 1.0))
        a, b = pos(), pos()
        while abs(b - a) < 0.1 * a:
            b = pos()
        lam = onp.array([a, a * (1.0 + g), b])
        if domain == "sym" and rng.random() < 0.4:
            lam = lam * onp.array([1.0, 1.0, -1.0]) if rng.random() < 0.5 else -lam
        return lam[list(_PERMS[int(rng.integers(6))])]
    if kind == "repeated_pair":
        a, b = pos(), pos()
        while abs(b - a) < 0.1 * a:
            b = pos()
        lam = onp.array([a, a, b])
        if domain == "sym" and rng.random() < 0.4:
            lam = lam * onp.array([1.0, 1.0, -1.0]) if rng.random() < 0.5 else -lam
        return lam[list(_PERMS[int(rng.integers(6))])]
    if kind == "triple":
        a = pos()
        if domain == "sym" and rng.random() < 0.3:
            a = -a
        return onp.array([a, a, a])
    if kind == "near_triple":
        a = pos()
        g = 10.0 ** rng.uniform(-14, -4)
        return a * (1.0 + g * onp.array([0.0, rng.uniform(0.2, 1.0), -rng.uniform(0.2, 1.0)]))[list(_PERMS[int(rng.integers(6))])]
    if kind == "rank2":
        a, b = pos(), pos()
        if rng.random() < 0.3:
            b = a
        return onp.array([0.0, a, b])[list(_PERMS[int(rng.integers(6))])]
    if kind == "rank1":
        return onp.array([0.0, 0.0, pos()])[list(_PERMS[int(rng.integers(6))])]
    if kind == "rank0":
        return onp.zeros(3)
    if kind == "mixed_signs":
        lam = pos(3) * onp.array([-1.0, 1.0, 1.0 if rng.random() < 0.5 else -1.0])
        return lam[list(_PERMS[int(rng.integers(6))])]
    if kind == "negative":
        return -pos(3)
    if kind == "traceless":
        a, b = pos(), pos()
        return onp.array([a, b, -(a + b)])[list(_PERMS[int(rng.integers(6))])]
    raise ValueError(kind)


def rotation(rng, kind):
    if kind == "identity":
        return onp.eye(3)
    if kind == "permutation":
        return onp.eye(3)[:, list(_PERMS[int(rng.integers(1, 6))])]
    if kind == "inplane":
        R = inplane_rot(rng.uniform(0.0, 2.0 * math.pi))
        if rng.random() < 0.3:     # the block may also couple (y,z) or (z,x): cyclic relabelling of the axes
            c = onp.eye(3)[:, [1, 2, 0]] if rng.random() < 0.5 else onp.eye(3)[:, [2, 0, 1]]
            R = c @ R @ c.T
        return R
    if kind == "haar":
        return haar_so3(rng)
    raise ValueError(kind)


def compose(lam, Q, scale, exact_diag):
    if exact_diag:
        # Q is a (signed) permutation: the result is exactly diagonal
        d = onp.abs(Q) @ lam
        return onp.diag(d) * scale
    A = Q @ onp.diag(lam) @ Q.T
    return 0.5 * (A + A.T) * scale


def make_batch(rng, n, spec_kind, orient, domain, scale_exp=(-20.0, 20.0), pivot=None):
    """n tensors of one (spectrum kind, orientation) class with log-uniform scales.  pivot (0/1/2/"cycle"/None): cyclically relabel
    the axes of Haar-oriented tensors so that the routine's column-pivoting picks that row (decided with the numpy replica)."""
    from vlib.oracles.c12_ref import pivot_index
    if spec_kind.startswith("exact:"):
        return exact_batch(rng, n, spec_kind[6:], domain, scale_exp)
    out = onp.zeros((n, 3, 3))
    lams = onp.zeros((n, 3))
    scales = onp.zeros(n)
    for i in range(n):
        lam = spectrum(rng, spec_kind, domain)
        Q = rotation(rng, orient)
        s = 10.0 ** rng.uniform(*scale_exp)
        A = compose(lam, Q, s, orient in ("identity", "permutation"))
        if pivot is not None and orient == "haar":
            want = (i % 3) if pivot == "cycle" else pivot
            p = pivot_index(A[None])[0]
            if p >= 0 and p != want:
                shift = (want - p) % 3
                c = onp.eye(3)[:, [(j - shift) % 3 for j in range(3)]]
                A = c.T @ A @ c
                A = 0.5 * (A + A.T)
        out[i] = A
        lams[i] = lam * s
        scales[i] = s
    return out, lams, scales


def random_sym(rng, n, scale=1.0):
    E = rng.standard_normal((n, 3, 3)) * scale
    return 0.5 * (E + onp.swapaxes(E, 1, 2))


def unit_sym_directions():
    """The six symmetric unit perturbations e_i e_j^T + e_j e_i^T (normalised)."""
    out = []
    for i in range(3):
        for j in range(i, 3):
            E = onp.zeros((3, 3))
            E[i, j] = 1.0
            E[j, i] = 1.0
            out.append(E)
    return onp.array(out)


# ----------------------------------------------------------------------------------------------------------------------
# Exact-degeneracy surfaces of the eigen-routine's branch variables.  Entries are dyadic rationals and scales are powers of
# two, so the stated condition (zero determinant / zero diagonal of the deviator, zero trace, equal pivot row norms, zero
# off-diagonals, isotropy) holds bit-for-bit in the input; a Fraction-based census is reported by the property module.

EXACT_KINDS = ["mean_diag", "traceless_inplane", "inplane_mean_out", "mean_rotated", "pure_shear", "shear_plus_iso",
               "hollow", "equal_diag_block", "circulant", "swap_sym", "traceless_generic", "one_offdiag_zero",
               "zero_trace_diag", "iso"]


def _dy(rng, nonzero=False):
    while True:
        v = float(rng.integers(-8, 9)) / 2.0 ** int(rng.integers(0, 4))
        if v != 0.0 or not nonzero:
            return v


def _relabel(rng, A):
    p = list(_PERMS[int(rng.integers(6))])
    P = onp.eye(3)[:, p]
    return P.T @ A @ P            # exact: a relabelling of the axes


def exact_tensor(rng, kind):
    a, c, d, e = _dy(rng), _dy(rng), _dy(rng), _dy(rng, True)
    g, x, y, z = _dy(rng, True), _dy(rng, True), _dy(rng, True), _dy(rng, True)
    if kind == "mean_diag":                 # middle eigenvalue exactly the mean of the other two: det(dev) = 0
        while c == a:
            c = _dy(rng)
        A = onp.diag([a, (a + c) / 2.0, c])
    elif kind == "traceless_inplane":       # isochoric plane-strain block, exact at any scale
        A = onp.array([[e, g, 0.0], [g, -e, 0.0], [0.0, 0.0, 0.0]])
    elif kind == "inplane_mean_out":        # out-of-plane eigenvalue = mean of the in-plane ones
        A = onp.array([[a, g, 0.0], [g, c, 0.0], [0.0, 0.0, (a + c) / 2.0]])
    elif kind == "mean_rotated":            # the same spectrum in a Haar frame: det(dev) = 0 up to a few ulp
        while c == a:
            c = _dy(rng)
        Q = haar_so3(rng)
        A = Q @ onp.diag([a, (a + c) / 2.0, c]) @ Q.T
        return 0.5 * (A + A.T)
    elif kind == "pure_shear":
        A = onp.array([[0.0, g, 0.0], [g, 0.0, 0.0], [0.0, 0.0, 0.0]])
    elif kind == "shear_plus_iso":
        A = onp.array([[a, g, 0.0], [g, a, 0.0], [0.0, 0.0, a]])
    elif kind == "hollow":                  # zero diagonal
        A = onp.array([[0.0, x, y], [x, 0.0, z], [y, z, 0.0]])
        if rng.random() < 0.5:
            A[0, 1] = A[1, 0] = 0.0
    elif kind == "equal_diag_block":        # k0 == k1 exactly, block form
        A = onp.array([[a, g, 0.0], [g, a, 0.0], [0.0, 0.0, d]])
    elif kind == "circulant":               # all three pivot row norms equal; a + 2b simple, a - b double
        A = onp.array([[a, g, g], [g, a, g], [g, g, a]])
        if rng.random() < 0.5:
            S = onp.diag(rng.choice([-1.0, 1.0], size=3))
            A = S @ A @ S
        return A
    elif kind == "swap_sym":                # symmetric under the exchange of two axes: two pivot row norms exactly equal
        A = onp.array([[a, x, y], [x, a, y], [y, y, d]])
    elif kind == "traceless_generic":
        A = onp.array([[a, x, y], [x, c, z], [y, z, -(a + c)]])
    elif kind == "one_offdiag_zero":
        A = onp.array([[a, x, y], [x, c, 0.0], [y, 0.0, d]])
    elif kind == "zero_trace_diag":
        A = onp.diag([a, c, -(a + c)])
    elif kind == "iso":
        A = onp.eye(3) * (a if a != 0.0 else 1.0)
        return A
    else:
        raise ValueError(kind)
    return _relabel(rng, A)


def exact_batch(rng, n, kind, domain, scale_exp=(-20.0, 20.0)):
    lo = int(math.ceil(scale_exp[0] * math.log2(10.0)))
    hi = int(math.floor(scale_exp[1] * math.log2(10.0)))
    out = onp.zeros((n, 3, 3))
    scales = onp.zeros(n)
    for i in range(n):
        A = exact_tensor(rng, kind)
        if domain in ("pd", "psd"):
            w = onp.linalg.eigvalsh(A)
            t = math.ceil(max(-w[0], 0.0)) + 1.0 + float(rng.integers(0, 8)) / 4.0     # dyadic shift: the deviator is unchanged
            A = A + t * onp.eye(3)
        s = 2.0 ** int(rng.integers(lo, hi + 1))
        out[i] = A * s
        scales[i] = s
    return out, None, scales
