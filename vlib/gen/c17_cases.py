"""C17 workload generator: seeded batches of find_root problems (numpy only, no jax/optimism).

An element is a dict {th[4], x0, lo, hi, x_tol, r_tol, max_iters, kind, guess} for one family.  `kind` is what the
generator *intends* (bracketed / endpoint / nobracket ...); the oracle re-derives the hypothesis from f(lo), f(hi).
"""
import math

import numpy as onp

from vlib.common import rng_of
from vlib.oracles import c17_rtsafe as R

FAMILY_NAMES = list(R.FAMILIES.keys())
SIMPLE_ROOT = [n for n in FAMILY_NAMES if R.FAMILIES[n][3] in (0, 1) and R.FAMILIES[n][4]]
CLASSES = ["std", "ample", "tight", "rtol", "endpoint", "nobracket", "revbracket"]
BATCH = 64


def _ulp(x):
    return float(onp.spacing(abs(float(x)))) if x != 0 else float(onp.spacing(0.0))


def _center(rng):
    u = rng.random()
    if u < 0.15:
        return 0.0
    if u < 0.6:
        return float(rng.standard_normal())
    return float(rng.choice([-1.0, 1.0]) * 10.0 ** rng.uniform(-3, 3))


def _theta_and_bracket(fam, rng, wide=None):
    """Returns th, lo, hi (lo < hi, sign change intended), root (a root inside, nan if no closed form),
    other (roots of the family outside the bracket that a mis-clipped Newton iteration could find)."""
    a = float(rng.choice([-1.0, 1.0]) * 10.0 ** rng.uniform(-2, 2))
    c = _center(rng)
    W = 10.0 ** rng.uniform(-2, 2)
    k = 1.0
    s = 1.0
    root = c
    others = []
    if fam == "exp":
        k = float(rng.choice([-1.0, 1.0]) * rng.uniform(0.1, 3.0))
        W = min(W, 20.0 / abs(k))
    elif fam == "cubic":
        k = 10.0 ** rng.uniform(-2, 1)
    elif fam == "tanh":
        k = 10.0 ** rng.uniform(0, 2.5)
    elif fam == "cbrt":
        k = 10.0 ** rng.uniform(-2, 1)
    if fam in ("affine", "exp", "cubic", "tanh", "odd3", "odd5", "cbrt"):
        lo = c - W * rng.uniform(0.05, 1.0)
        hi = c + W * rng.uniform(0.05, 1.0)
        if rng.random() < 0.12:  # root at the bracket midpoint: first bisection lands on it exactly
            h = W * rng.uniform(0.05, 1.0)
            lo, hi = c - h, c + h
    elif fam == "poly3":
        s = 10.0 ** rng.uniform(-1, 1)
        k = float(rng.uniform(0.3, 3.0))
        r = [c - k * s, c, c + s]
        if rng.random() < 0.5:  # all three roots inside
            lo = r[0] - s * rng.uniform(0.05, 2.0)
            hi = r[2] + s * rng.uniform(0.05, 2.0)
            root = c
        else:  # one root inside, the others outside
            j = int(rng.integers(3))
            left = r[j - 1] if j > 0 else r[0] - 3 * s
            right = r[j + 1] if j < 2 else r[2] + 3 * s
            lo = r[j] - (r[j] - left) * rng.uniform(0.05, 0.95)
            hi = r[j] + (right - r[j]) * rng.uniform(0.05, 0.95)
            root = r[j]
            others = [r[i] for i in range(3) if i != j]
    elif fam == "sin":
        k = float(rng.uniform(0.5, 5.0))
        m1 = int(rng.integers(0, 3))
        m2 = m1 if rng.random() < 0.5 else int(rng.integers(0, 3))
        if (m1 + m2) % 2:
            m2 += 1
        lo = c - (m1 + rng.uniform(0.05, 0.95)) * math.pi / k
        hi = c + (m2 + rng.uniform(0.05, 0.95)) * math.pi / k
        others = [c - (m1 + 1 + j) * math.pi / k for j in range(2)] + [c + (m2 + 1 + j) * math.pi / k for j in range(2)]
    elif fam == "rate":
        k = 10.0 ** rng.uniform(-3, 1)
        sigma = 10.0 ** rng.uniform(-2, 1)
        s = sigma * k ** 0.75
        delta = min(10.0 ** rng.uniform(-8, -1), (0.5 / sigma) ** 4)
        lo = c + delta * k
        hi = c + k * rng.uniform(1.0, 3.0)
        if not (lo > c):  # c large: delta*k below ulp(c)
            lo = float(onp.nextafter(c, math.inf)) + 4 * _ulp(c)
        root = math.nan
    else:
        raise KeyError(fam)
    return [a, c, k, s], float(lo), float(hi), float(root), others


def _guess(rng, lo, hi, root, others=()):
    u = rng.random()
    W = hi - lo
    outside = [r for r in others if not (lo <= r <= hi)]
    if u < 0.20 and outside:
        return float(outside[int(rng.integers(len(outside)))]), "other_root"
    if u < 0.40:
        return float(rng.uniform(lo, hi)), "inside"
    if u < 0.50:
        # far outside: f overflows there (exp, powers) -- harmless only because the guess is clipped first
        return float(rng.choice([-1.0, 1.0]) * 10.0 ** rng.uniform(100, 307)), "far_outside"
    if u < 0.75:
        side = rng.random() < 0.5
        d = W * 10.0 ** rng.uniform(-3, 1)
        return (float(lo - d) if side else float(hi + d)), "outside"
    if u < 0.85 and math.isfinite(root):
        return float(root), "at_root"
    if u < 0.95:
        return (float(lo) if rng.random() < 0.5 else float(hi)), "at_end"
    return float(0.5 * (lo + hi)), "midpoint"


def make_elements(fam, cls, seed, n=BATCH):
    rng = rng_of(seed)
    rng_s = rng_of(seed + 7907)     # separate stream: the elements of all other classes stay what they were
    els = []
    tries = 0
    while len(els) < n and tries < 50 * n:
        tries += 1
        th, lo, hi, root, others = _theta_and_bracket(fam, rng)
        if fam == "rate" and cls in ("std", "ample", "rtol") and rng_s.random() < 0.3:
            # the bracket starts AT the point of infinite slope (how J2's return mapping uses the finder: lower end = old
            # plastic strain): f(c) = a*k is finite and non-zero, the slope there is -sign(a)*inf, and a has both signs
            lo = float(th[1])
        x_tol, r_tol, mi = 1e-13, 0.0, 50
        kind = "bracketed"
        scale = max(abs(lo), abs(hi))
        if cls == "std":
            if rng.random() < 0.3:
                mi = int(rng.choice([50, 100, 200]))
                x_tol = 10.0 ** rng.uniform(-14, -8)
        elif cls == "ample":
            x_tol = max(10.0 ** rng.uniform(-13, -5) * max(1.0, hi - lo), 8.0 * _ulp(scale))
            mi = R.ample_budget(lo, hi, x_tol) + int(rng.integers(0, 20))
        elif cls == "tight":
            mi = int(rng.integers(1, 31))
            x_tol = 10.0 ** rng.uniform(-13, -6)
        elif cls == "rtol":
            x_tol = 0.0
            fs = max(abs(R.f_np(fam, lo, th)), abs(R.f_np(fam, hi, th)))
            if not (math.isfinite(fs) and fs > 0):
                continue
            r_tol = fs * 10.0 ** rng.uniform(-12, -3)
            mi = int(rng.choice([50, 100, 200]))
        elif cls == "endpoint":
            if not math.isfinite(root) or R.f_np(fam, root, th) != 0.0:
                continue
            if rng.random() < 0.5:
                lo = root
            else:
                hi = root
            if not lo < hi:
                continue
            kind = "endpoint"
        elif cls == "nobracket":
            # both ends on the same side of the (only) sign change inside, or an even number of roots inside
            if fam == "sin":
                k = th[2]
                al = rng.uniform(0.05, 0.5)
                j = int(rng.integers(0, 3))  # 0 or an even number of roots inside
                lo = th[1] + al * math.pi / k
                hi = th[1] + (2.0 * j + rng.uniform(al + 0.05, 0.95)) * math.pi / k
            elif fam == "poly3":
                a, c, k, s = th
                if rng.random() < 0.5:  # two roots inside -> same sign at both ends
                    lo = c - 0.5 * k * s
                    hi = c + s * (1.0 + rng.uniform(0.1, 1.0))
                else:
                    lo = c + s * (1.0 + rng.uniform(0.01, 1.0))
                    hi = lo + s * rng.uniform(0.1, 3.0)
            elif fam == "rate":
                hi = lo + (hi - lo) * 1e-3 * rng.random()
            else:
                W = hi - lo
                if rng.random() < 0.5:
                    lo = root + W * 10.0 ** rng.uniform(-6, 0)
                    hi = lo + W * rng.uniform(0.1, 2.0)
                else:
                    hi = root - W * 10.0 ** rng.uniform(-6, 0)
                    lo = hi - W * rng.uniform(0.1, 2.0)
            fl, fh = R.f_np(fam, lo, th), R.f_np(fam, hi, th)
            if not (fl * fh > 0.0):
                continue
            kind = "nobracket"
        elif cls == "revbracket":
            lo, hi = hi, lo
            kind = "reversed"
        if cls not in ("nobracket",):
            fl, fh = R.f_np(fam, lo, th), R.f_np(fam, hi, th)
            if not (math.isfinite(fl) and math.isfinite(fh)):
                continue
            if kind in ("bracketed", "reversed") and not (fl * fh < 0.0):
                continue
        x0, gk = _guess(rng, min(lo, hi), max(lo, hi), root, others if cls not in ("nobracket", "endpoint") else ())
        els.append({"th": th, "x0": x0, "lo": float(lo), "hi": float(hi), "x_tol": float(x_tol), "r_tol": float(r_tol),
                    "max_iters": int(mi), "kind": kind, "guess": gk, "root": root})
    return els
