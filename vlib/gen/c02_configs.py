"""C02 — configuration sampler (parent side, numpy only) and realisation helpers (worker side).

A *configuration* is everything that costs a JIT compilation: mesh, element order, quadrature degree, material model,
2-D mode, pressure-projection degree, factory (static / multi-block / dynamics) and, for dynamics, the Newmark beta.
The parent enumerates the option strata deterministically (so REQUIRED counts do not depend on the seed) and draws
the details (mesh shape, material constants, ...) from the seed.  Displacements, histories, BC subsets and block
partitions are drawn in the worker from case["seed"].
"""
import math

import numpy as onp

HYPER = ["lin_linear", "lin_gl", "neo_adagio", "neo_coupled", "gent", "lin_log"]
NONLINEAR_CHEAP = ["neo_adagio", "neo_coupled", "gent", "lin_gl"]

# adequate / deliberately low quadrature degrees per element order
QUAD_ADEQUATE = {1: [2, 3], 2: [4, 5], 3: [5, 6], 4: [6, 7]}
QUAD_LOW = {1: [1], 2: [1, 2], 3: [2, 3], 4: [2, 4]}

COST = {"lin_linear": 10, "lin_gl": 10, "neo_adagio": 12, "neo_coupled": 12, "gent": 12, "lin_log": 40,
        "j2_large": 75, "j2_small": 22, "visco1": 50, "visco3": 110}


def loguniform(rng, lo, hi):
    return float(math.exp(rng.uniform(math.log(lo), math.log(hi))))


# ------------------------------------------------------------------ meshes

def mesh_spec(rng, kind, order, axisym=False, small=False):
    """kind in structured|delaunay|graded|hole|aniso|shear.  Node count kept <= ~100 (dense Hessian of 2*nNodes)."""
    # base-grid sizes per order so that the elevated mesh has roughly 25..90 nodes
    base = {1: (4, 8), 2: (3, 5), 3: (2, 4), 4: (2, 3)}[order]
    lo, hi = base
    if small:
        hi = max(lo, hi - 1)
    nx = int(rng.integers(lo, hi + 1))
    ny = int(rng.integers(lo, hi + 1))
    if order == 4 and nx * ny > 6:
        ny = 2
    spec = {"order": order, "nx": nx, "ny": ny, "seed": int(rng.integers(1 << 30))}
    if kind == "structured":
        spec["kind"] = "structured"
        x0 = float(rng.uniform(0.3, 3.0)) if axisym else float(rng.uniform(-2, 2))
        y0 = float(rng.uniform(-2, 2))
        spec["xext"] = [x0, x0 + loguniform(rng, 0.3, 3.0)]
        spec["yext"] = [y0, y0 + loguniform(rng, 0.3, 3.0)]
        if order >= 2 and rng.random() < 0.25:
            spec["bubble"] = True
    else:
        spec["kind"] = "delaunay"
        spec["nx"] = max(3, nx)
        spec["ny"] = max(3, ny)
        if kind == "hole":
            spec["hole"] = True
            spec["nx"] = max(5, spec["nx"]) if order == 1 else max(4, spec["nx"])
            spec["ny"] = max(5, spec["ny"]) if order == 1 else max(4, spec["ny"])
            if order >= 3:
                spec["nx"], spec["ny"] = 4, (4 if order == 3 else 3)
        if kind == "graded":
            spec["graded"] = True
        if axisym:
            spec["xshift"] = float(rng.uniform(0.2, 3.0))
        elif kind == "aniso":
            spec["affine_kind"] = "aniso"
        elif kind == "shear":
            spec["affine_kind"] = "shear"
        else:
            spec["affine_kind"] = "rot"
    return spec


# ------------------------------------------------------------------ materials

def material_spec(rng, name, with_density=False, nearly_incompressible=False):
    E = loguniform(rng, 0.1, 1.0e4)
    nu = float(rng.uniform(0.40, 0.49)) if nearly_incompressible else float(rng.uniform(0.0, 0.45))
    m = {"name": name, "E": E, "nu": nu}
    if name == "gent":
        m["Jm"] = float(rng.uniform(3.0, 50.0))
    if name.startswith("j2"):
        m["Y0"] = E * loguniform(rng, 0.003, 0.02)
        m["hardening"] = None  # filled by caller
    if name.startswith("visco"):
        m["K"] = E / 3.0 / (1 - 2 * nu)
        m["G"] = 0.5 * E / (1 + nu)
        nb = 1 if name == "visco1" else 3
        m["Gneq"] = [m["G"] * loguniform(rng, 0.2, 5.0) for _ in range(nb)]
        m["tau"] = [loguniform(rng, 1e-2, 1e2) for _ in range(nb)]
    if with_density:
        m["density"] = loguniform(rng, 1e-2, 1e2)
    return m


def j2_spec(rng, kin, hardening, rate, with_density=False):
    m = material_spec(rng, "j2_large" if kin == "large" else "j2_small", with_density)
    Y0 = m["Y0"]
    if hardening == "linear":
        m["hardening"] = {"model": "linear", "H": m["E"] * loguniform(rng, 1e-3, 0.2)}
    elif hardening == "voce":
        m["hardening"] = {"model": "voce", "Ysat": Y0 * float(rng.uniform(1.3, 3.0)), "eps0": loguniform(rng, 0.01, 0.3)}
    else:
        m["hardening"] = {"model": "power law", "n": float(rng.uniform(2.0, 8.0)), "eps0": loguniform(rng, 0.005, 0.05)}
    if rate:
        m["rate"] = {"S": Y0 * float(rng.uniform(0.1, 1.0)), "m": float(rng.uniform(1.5, 6.0)), "epsDot0": loguniform(rng, 1e-3, 1e1)}
    return m


def build_material(m):
    """worker side: spec -> optimism MaterialModel (prints of the library are swallowed by the worker)."""
    name = m["name"]
    props = {"elastic modulus": m["E"], "poisson ratio": m["nu"]}
    if "density" in m:
        props["density"] = m["density"]
    if name.startswith("lin_"):
        from optimism.material import LinearElastic
        props["strain measure"] = {"lin_linear": "linear", "lin_gl": "green lagrange", "lin_log": "logarithmic"}[name]
        return LinearElastic.create_material_model_functions(props)
    if name.startswith("neo_"):
        from optimism.material import Neohookean
        props["version"] = name[4:]
        return Neohookean.create_material_model_functions(props)
    if name == "gent":
        from optimism.material import Gent
        p = {"bulk modulus": m["E"] / 3.0 / (1 - 2 * m["nu"]), "shear modulus": 0.5 * m["E"] / (1 + m["nu"]), "Jm parameter": m["Jm"]}
        if "density" in m:
            p["density"] = m["density"]
        return Gent.create_material_functions(p)
    if name.startswith("j2"):
        from optimism.material import J2Plastic
        props["yield strength"] = m["Y0"]
        props["kinematics"] = "large deformations" if name == "j2_large" else "small deformations"
        h = m["hardening"]
        props["hardening model"] = h["model"]
        if h["model"] == "linear":
            props["hardening modulus"] = h["H"]
        elif h["model"] == "voce":
            props["saturation strength"] = h["Ysat"]
            props["reference plastic strain"] = h["eps0"]
        else:
            props["hardening exponent"] = h["n"]
            props["reference plastic strain"] = h["eps0"]
        if m.get("rate"):
            props["rate sensitivity"] = "power law"
            props["rate sensitivity stress"] = m["rate"]["S"]
            props["rate sensitivity exponent"] = m["rate"]["m"]
            props["reference plastic strain rate"] = m["rate"]["epsDot0"]
        return J2Plastic.create_material_model_functions(props)
    if name == "visco1":
        from optimism.material import HyperViscoelastic
        p = {"equilibrium bulk modulus": m["K"], "equilibrium shear modulus": m["G"],
             "non equilibrium shear modulus": m["Gneq"][0], "relaxation time": m["tau"][0]}
        if "density" in m:
            p["density"] = m["density"]
        return HyperViscoelastic.create_material_model_functions(p)
    if name == "visco3":
        from optimism.material import MultiBranchHyperViscoelastic
        p = {"equilibrium bulk modulus": m["K"], "equilibrium shear modulus": m["G"]}
        for k in range(3):
            p["non equilibrium shear modulus %d" % (k + 1)] = m["Gneq"][k]
            p["relaxation time %d" % (k + 1)] = m["tau"][k]
        if "density" in m:
            p["density"] = m["density"]
        return MultiBranchHyperViscoelastic.create_material_model_functions(p)
    raise ValueError(name)


def is_path_dependent(m):
    return m["name"].startswith("j2") or m["name"].startswith("visco")


# ------------------------------------------------------------------ configurations

def _quad(rng, order, low, pp):
    q = int(rng.choice(QUAD_LOW[order] if low else QUAD_ADEQUATE[order]))
    if pp == 1:
        q = max(q, 2)  # the P1 projection needs >= 3 quadrature points to be defined at all
    return q


def make_config(rng, cls, factory, matname, mode, pp, order, meshkind, low_quad=False, nblocks=None, j2=None,
                draws=2, nbc=4, direct=True, hist_steps=None):
    axisym = mode == "axisymmetric"
    dyn = factory == "dynamics"
    if pp is not None and order < 2:
        order = 2   # on linear triangles grad u (hence J) is constant per element and the volume-average projection is the identity
    if j2 is not None:
        mat = j2_spec(rng, j2[0], j2[1], j2[2], with_density=dyn)
    else:
        mat = material_spec(rng, matname, with_density=dyn, nearly_incompressible=(pp is not None and rng.random() < 0.5))
    small = is_path_dependent(mat)
    c = {"cls": cls, "factory": factory, "material": mat, "mode": mode, "pp": pp,
         "mesh": mesh_spec(rng, meshkind, order, axisym=axisym, small=small), "meshkind": meshkind,
         "quad": _quad(rng, order, low_quad, pp), "low_quad": bool(low_quad),
         "draws": draws, "nbc": nbc, "direct": bool(direct)}
    if nblocks:
        c["nblocks"] = int(nblocks)
        c["unsorted_blocks"] = bool(rng.random() < 0.4)
    if dyn:
        c["beta"] = float(rng.uniform(0.2501, 0.5))
        c["gamma"] = float(rng.uniform(0.5, 1.0))
    if is_path_dependent(mat):
        c["hist_steps"] = int(hist_steps if hist_steps is not None else rng.integers(1, 4))
    cost = COST[mat["name"]]
    if factory == "multi":
        cost *= 1.0 + 0.9 * c["nblocks"]
        cost += COST[mat["name"]]  # single-block comparison functions
        if mat["name"] == "lin_log":
            cost *= 3.0                # per-block copies of the eigen-decomposition rules compile very slowly
    if dyn:
        cost *= 1.3
    if order >= 3:
        cost *= 1.3
    c["cost"] = float(cost)
    return c


def mixed_materials(rng, names):
    """One material spec per block for the multi-block factory with DIFFERENT materials.  names: list whose entries are a
    hyperelastic/viscoelastic model name or a tuple ("j2", kinematics, hardening, rate).  Repeating a name gives the same
    model with different (independently drawn, decades apart) constants."""
    out = []
    for n in names:
        if isinstance(n, (tuple, list)):
            out.append(j2_spec(rng, n[1], n[2], n[3]))
        else:
            out.append(material_spec(rng, n))
    return out


def mixed_cost(specs):
    return 10.0 + 2.2 * sum(COST[m["name"]] for m in specs)


def scale_moduli(spec, f):
    """copy of a material spec with every stress-like constant multiplied by f (strain-like and time-like constants unchanged)"""
    import copy
    m = copy.deepcopy(spec)
    for key in ("E", "K", "G", "Y0"):
        if key in m:
            m[key] = m[key] * f
    if "Gneq" in m:
        m["Gneq"] = [g * f for g in m["Gneq"]]
    h = m.get("hardening")
    if h:
        for key in ("H", "Ysat"):
            if key in h:
                h[key] = h[key] * f
    if m.get("rate"):
        m["rate"]["S"] = m["rate"]["S"] * f
    return m
