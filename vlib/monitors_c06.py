"""C06 -- contracts + dumb numpy reference oracles for the trust-region sub-problem solvers.

The post-conditions are icontract contracts wrapped around the *module attributes*

    optimism.EquationSolver.solve_trust_region_minimization      (Steihaug-Toint truncated CG)
    optimism.EquationSolver.dogleg_step
    optimism.treigen.treigen.solve                                (exact, eigen-decomposition based)
    optimism.EquationSolverSubspace.trust_region_cg               (the sub-space solver's own CG variant; optional)

so that internal callers (`trust_region_minimize`, `ModelProblem.solve`, the adjoint solves) go through them as well.
`install_contracts()` is reusable by other property modules (C01/C05) to monitor the sub-solvers *in situ* during real
solves: the dense model Hessian H, the preconditioner P and the dogleg metric M are reconstructed by applying the
closures handed to the sub-solver to the identity (only when n <= MAX_N).  While the oracle calls those closures the
module flag `IN_ORACLE` is True, so that recording proxies can ignore the extra evaluations.

Two modes:
  mode="record" (default)  a failing clause is appended to LOG.violations and the call continues (all clauses of a call
                           are evaluated; a real solve is not aborted);
  mode="raise"             the contract raises `C06ContractViolation` at the first failing clause (classic icontract).

`treigen.solve` is additionally guarded by a loop observer on the module global `treigen.pnorm_squared` (evaluated once
per secular iteration): a repeated iteration state or more than SECULAR_ITERATION_CAP iterations raises
`ExactSolverNoReturn` instead of letting the un-capped `while` loop spin (open finding D18); `classify_no_return` is the
structural classifier of that finding.  Mechanism keys assigned here: KEY_NEAR_POLE (D18), KEY_ZERO_MATRIX (D19),
KEY_NORM_DRIFT (D20).

Everything observed is counted in LOG.counters (contract evaluations per function, exits, branches, skipped calls);
`transfer(res)` moves the log into a vlib.common.Res.  Zero evaluations of a contract must be treated as inconclusive
by the caller.

The oracles use numpy float64 / longdouble only and share no code with optimism.
"""
import math
import signal

import numpy as onp

LD = onp.longdouble
EPS = float(onp.finfo(float).eps)
MAX_N = 40

# Tolerances (DESIGN.md C06 "Tol"); rounding floors are stated next to each clause below.
TOL = {
    "in_ball": 1e-6,           # ||z||_cfg <= Delta (1 + 1e-6)
    "boundary": 1e-6,          # | ||z||_cfg / Delta - 1 | <= 1e-6 for 'boundary' / 'neg curve'
    "cauchy_rel": 1e-9,        # model(z) <= model(cauchy) + 1e-9 |model(cauchy)| + 4 (n+2) eps sum|terms| (dot-product rounding bound)
    "interior_factor": 1.05,   # ||H z + g|| <= 1.05 max(cg_tol, ratio ||g||) (+ rounding floor of the recurrence residual)
    "path_rel": 1e-6,          # distance of the dogleg point from the path <= 1e-6 ||d|| + 64 eps (||cp|| + ||newton||)
    "exact_ball": 1e-8,        # ||s|| <= Delta (1 + 1e-8)
    "exact_rel": 1e-7,         # model(s) <= m* + 1e-7 |m*| + 64 eps (||A|| Delta^2 + ||b|| Delta) (+ 1e-12 mean|sigma| Delta^2 on the
                               # boundary; interior: + |m*| min(1, (8 eps cond)^2) with m* = model at the longdouble Newton step)
}

IN_ORACLE = False
KEY_ZERO_MATRIX = "C06/exact-nan/zero-matrix"
KEY_NEAR_POLE = "C06/exact-no-return/near-pole"
KEY_NORM_DRIFT = "C06/cg-preconditioned-norm-recurrence-drift"
DRIFT_CAP = 0.9
DRIFT_MIN_ITERS = 5
SECULAR_ITERATION_CAP = 400


class C06ContractViolation(AssertionError):
    """Raised (mode='raise') when a C06 post-condition fails."""


class ExactSolverNoReturn(Exception):
    """The exact solver did not return within the watchdog budget."""


class _Log:
    def __init__(self):
        self.reset()

    def reset(self):
        self.counters = {}
        self.ratios = {}
        self.violations = []
        self.checks = 0

    def count(self, name, n=1):
        self.counters[name] = self.counters.get(name, 0) + n

    def ratio(self, clause, observed, allowed):
        self.checks += 1
        try:
            observed = float(observed)
            allowed = float(allowed)
        except Exception:
            observed = float("nan")
        if not math.isfinite(observed):
            r = float("inf")
        elif allowed <= 0:
            r = 0.0 if observed <= 0 else float("inf")
        else:
            r = observed / allowed
        if r > self.ratios.get(clause, -1.0):
            self.ratios[clause] = r
        return r <= 1.0


LOG = _Log()
_STATE = {"mode": "record", "installed": {}, "memo_key": None, "memo_val": None, "context": None}


def set_context(ctx):
    """Free-form JSON-able description attached to every violation recorded from now on (e.g. the generating recipe)."""
    _STATE["context"] = ctx


def _fail(clause, detail, mechanism=None):
    d = dict(detail or {})
    if _STATE["context"] is not None:
        d["context"] = _STATE["context"]
    if len(LOG.violations) < 200:
        LOG.violations.append({"clause": clause, "mechanism": mechanism, "detail": d})
    LOG.count("violations:" + clause)
    return _STATE["mode"] != "raise"      # record mode: contract "passes" after logging


def _bound(clause, observed, allowed, detail=None):
    ok = LOG.ratio(clause, observed, allowed)
    if ok:
        return True
    d = {"observed": _f(observed), "allowed": _f(allowed)}
    d.update(detail or {})
    return _fail(clause, d)


def _expect(clause, ok, detail=None):
    LOG.checks += 1
    if ok:
        return True
    return _fail(clause, detail or {})


def _f(x):
    try:
        return float(x)
    except Exception:
        return repr(x)


# --------------------------------------------------------------------------- numpy oracles

def dense_from_closure(f, n):
    """Matrix of the linear map f by applying it to the columns of the identity (f gets / returns jax or numpy vectors)."""
    global IN_ORACLE
    import jax.numpy as jnp
    out = onp.zeros((n, n))
    IN_ORACLE = True
    try:
        I = onp.eye(n)
        for j in range(n):
            out[:, j] = onp.asarray(f(jnp.asarray(I[:, j])), dtype=float).reshape(n)
    finally:
        IN_ORACLE = False
    return out


def model_value(H, g, z):
    """g.z + z.H.z/2 in extended precision."""
    Hl = onp.asarray(H, dtype=LD)
    gl = onp.asarray(g, dtype=LD)
    zl = onp.asarray(z, dtype=LD)
    lin = gl @ zl
    quad = LD(0.5) * (zl @ (Hl @ zl))
    # magnitude that bounds the float64 rounding error of evaluating the model at z: sum of absolute values of all terms
    mag = abs(gl) @ abs(zl) + LD(0.5) * (abs(zl) @ (abs(Hl) @ abs(zl)))
    return lin + quad, mag


def metric_norm(M, z):
    zl = onp.asarray(z, dtype=LD)
    if M is None:
        return onp.sqrt(zl @ zl)
    q = zl @ (onp.asarray(M, dtype=LD) @ zl)
    return onp.sqrt(q) if q >= 0 else LD("nan")


def spd_report(P):
    """(is symmetric positive definite, relative asymmetry, lambda_min, lambda_max) of a dense matrix."""
    P = onp.asarray(P, dtype=float)
    if not onp.all(onp.isfinite(P)):
        return False, float("inf"), float("nan"), float("nan")
    sc = max(float(onp.abs(P).max()), 1e-300)
    asym = float(onp.abs(P - P.T).max()) / sc
    w = onp.linalg.eigvalsh(0.5 * (P + P.T))
    ok = asym <= 1e-8 and w[0] > 0 and w[0] > 1e-13 * w[-1]
    return bool(ok), asym, float(w[0]), float(w[-1])


def cauchy_model_value(H, g, P, Minv, Delta, direction=None):
    """Model value at the Cauchy point: argmin of the model along -P g inside {||.||_cfg <= Delta}.

    Minv is the metric of the configured norm (None = Euclidean).  `direction` = the routine's own float64 -P g (its
    consistency with P and g is judged by a separate clause); the Cauchy value is ill-conditioned with respect to the
    rounding of P g when P is ill-conditioned, so the line search is done along the direction the routine really had.
    Returns (model value, step length, magnitude of the terms)."""
    if direction is None:
        d = -(onp.asarray(P, dtype=LD) @ onp.asarray(g, dtype=LD))
    else:
        d = onp.asarray(direction, dtype=LD)
    dn = metric_norm(Minv, d)
    if not (dn > 0):
        return LD(0.0), LD(0.0), LD(0.0)
    gd = onp.asarray(g, dtype=LD) @ d           # = -g.P.g < 0
    curv = d @ (onp.asarray(H, dtype=LD) @ d)
    tmax = LD(Delta) / dn
    t = tmax
    if curv > 0:
        t = min(tmax, -gd / curv)
    m, mag = model_value(H, g, t * d)
    return m, t, mag


def path_distance(cp, newton, d):
    """Euclidean distance of d from the dogleg path {t cp, 0<=t<=1} U {cp + s (newton - cp), 0<=s<=1}; plus (leg, parameter)."""
    cp = onp.asarray(cp, dtype=LD)
    nw = onp.asarray(newton, dtype=LD)
    d = onp.asarray(d, dtype=LD)
    cc = cp @ cp
    t = min(max((d @ cp) / cc, LD(0)), LD(1)) if cc > 0 else LD(0)
    r1 = onp.sqrt(((d - t * cp) ** 2).sum())
    e = nw - cp
    ee = e @ e
    s = min(max(((d - cp) @ e) / ee, LD(0)), LD(1)) if ee > 0 else LD(0)
    r2 = onp.sqrt(((d - cp - s * e) ** 2).sum())
    if r1 <= r2:
        return r1, 0, float(t)
    return r2, 1, float(s)


def newton_step_longdouble(A, b):
    """Unconstrained minimiser -A^-1 b of a positive definite model in longdouble: Cholesky factorisation of the matrix
    exactly as given + two steps of iterative refinement (numpy has no longdouble LAPACK; n <= 40).  Returns None when the
    factorisation meets a non-positive pivot (A not positive definite in extended precision)."""
    A = onp.asarray(A, dtype=LD)
    A = (A + A.T) / 2
    n = A.shape[0]
    L = onp.zeros((n, n), dtype=LD)
    for j in range(n):
        d = A[j, j] - L[j, :j] @ L[j, :j]
        if not d > 0:
            return None
        L[j, j] = onp.sqrt(d)
        if j + 1 < n:
            L[j + 1:, j] = (A[j + 1:, j] - L[j + 1:, :j] @ L[j, :j]) / L[j, j]

    def solve(r):
        y = onp.zeros(n, dtype=LD)
        for i in range(n):
            y[i] = (r[i] - L[i, :i] @ y[:i]) / L[i, i]
        x = onp.zeros(n, dtype=LD)
        for i in range(n - 1, -1, -1):
            x[i] = (y[i] - L[i + 1:, i] @ x[i + 1:]) / L[i, i]
        return x

    rhs = -onp.asarray(b, dtype=LD)
    x = solve(rhs)
    for _ in range(2):
        x = x + solve(rhs - A @ x)
    return x if onp.all(onp.isfinite(x)) else None


def trs_global_min(A, b, Delta):
    """Global minimum of s.A.s/2 + b.s over ||s|| <= Delta.

    Dense symmetric eigen-decomposition (numpy, float64) followed by *bisection* in longdouble on the secular equation
    ||(A + lam I)^-1 b|| = Delta over lam >= max(0, -sigma_1), with the hard case (no root right of the pole) handled
    explicitly.  The value returned is the dual function q(lam) = -sum bv_i^2 / (2 (sigma_i + lam)) - lam Delta^2 / 2
    at the multiplier found, which equals the primal optimum at the solution and is a lower bound of it anywhere else
    (weak duality) -- so an inaccurate multiplier can only make the check *more* lenient, never produce a false alarm.
    Deliberately independent of More-Sorensen/Newton.

    Returns dict(m, lam, case, pole_gap, sig (float64 eigenvalues), prest (norm of the pole-free part of the step)).
    """
    A = onp.asarray(A, dtype=float)
    A = 0.5 * (A + A.T)
    n = A.shape[0]
    sig64, V = onp.linalg.eigh(A)
    sig = sig64.astype(LD)
    bv = V.T.astype(LD) @ onp.asarray(b, dtype=LD)
    bvv = bv * bv
    D = LD(Delta)
    anorm = max(abs(sig[0]), abs(sig[-1]))
    tiny = LD(4) * LD(EPS) * anorm + LD(onp.finfo(float).tiny)

    def phi2(lam):
        return (bvv / ((sig + lam) ** 2)).sum()

    def q(lam):
        return -LD(0.5) * (bvv / (sig + lam)).sum() - LD(0.5) * lam * D * D

    # interior?
    if sig[0] > tiny:
        if phi2(LD(0)) <= D * D:
            return {"m": q(LD(0)), "lam": 0.0, "case": "interior", "pole_gap": float(sig[0]), "sig": sig64,
                    "prest": float(onp.sqrt(phi2(LD(0))))}
    lam_lo = max(LD(0), -sig[0])
    # the lowest eigenspace (numerically): eigenvalues within 'tiny' of sigma_1
    low = (sig - sig[0]) <= tiny
    # pole-free part of the step at the pole: only components outside the lowest eigenspace
    with onp.errstate(divide="ignore", invalid="ignore"):
        rest = onp.where(low, LD(0), bvv / onp.where(low, LD(1), (sig + lam_lo)) ** 2)
    prest2 = rest.sum()
    lam_min = lam_lo + tiny
    if phi2(lam_min) <= D * D:
        # no root right of the pole (up to eigh accuracy): hard case (or lam = 0 boundary-touching interior case)
        case = "hard" if lam_lo > 0 or sig[0] <= tiny else "interior"
        return {"m": q(lam_min), "lam": float(lam_min), "case": case, "pole_gap": float(lam_min + sig[0]), "sig": sig64,
                "prest": float(onp.sqrt(prest2))}
    lo = lam_min
    step = max(anorm, onp.sqrt(bvv.sum()) / D, LD(onp.finfo(float).tiny))
    hi = lam_min + step
    k = 0
    while phi2(hi) > D * D and k < 4000:
        step = step * 2
        hi = lam_min + step
        k += 1
    for _ in range(400):
        mid = lo + (hi - lo) / 2
        if mid == lo or mid == hi:
            break
        if phi2(mid) > D * D:
            lo = mid
        else:
            hi = mid
    lam = hi
    return {"m": max(q(lo), q(hi)), "lam": float(lam), "case": "boundary", "pole_gap": float(lam + sig[0]), "sig": sig64,
            "prest": float(onp.sqrt(prest2))}


# --------------------------------------------------------------------------- analyses (memoised per call)

def _memo(key, builder):
    if _STATE["memo_key"] is key:
        return _STATE["memo_val"]
    val = builder()
    _STATE["memo_key"] = key
    _STATE["memo_val"] = val
    return val


def _vec(a):
    return onp.asarray(a, dtype=float).reshape(-1)


def _cg_analysis(r, hess_vec_func, precond, trSize, settings, result, two_norm_only=False, direction=None):
    def build():
        out = {"skip": None}
        try:
            z, stepType, iters = result[0], result[-2], result[-1]
        except Exception:
            out["skip"] = "malformed"
            return out
        g = _vec(r)
        n = g.size
        out.update(n=n, g=g, z=_vec(z), stepType=stepType, iters=iters)
        if n > MAX_N:
            out["skip"] = "n>%d" % MAX_N
            return out
        Delta = float(trSize)
        if not (onp.all(onp.isfinite(g)) and math.isfinite(Delta) and Delta > 0):
            out["skip"] = "hypothesis: non-finite gradient or radius not positive"
            return out
        H = dense_from_closure(hess_vec_func, n)
        P = dense_from_closure(precond, n)
        if not onp.all(onp.isfinite(H)):
            out["skip"] = "hypothesis: non-finite model Hessian"
            return out
        sc = max(float(onp.abs(H).max()), 1e-300)
        if float(onp.abs(H - H.T).max()) > 1e-8 * sc:
            out["skip"] = "hypothesis: model Hessian not symmetric"
            return out
        ok, asym, pmin, pmax = spd_report(P)
        if not ok:
            out["skip"] = "hypothesis: preconditioner not SPD"
            return out
        pre = bool(settings.use_preconditioned_inner_product_for_cg) and not two_norm_only
        Minv = onp.linalg.inv(0.5 * (P + P.T)) if pre else None
        if Minv is not None:
            Minv = 0.5 * (Minv + Minv.T)
        out.update(H=H, P=P, Minv=Minv, pre=pre, Delta=Delta, pcond=pmax / pmin)
        zz = out["z"]
        out["finite"] = bool(onp.all(onp.isfinite(zz)))
        if out["finite"]:
            out["norm"] = float(metric_norm(Minv, zz))
            out["norm_rounding"] = _quadform_rounding(Minv, zz)
            m, mabs = model_value(H, g, zz)
            out["m"], out["mabs"] = m, mabs
            dirn = direction if direction is not None else result[1]
            dirn = _vec(dirn) if dirn is not None else None
            if dirn is not None and (dirn.size != n or not onp.all(onp.isfinite(dirn))):
                dirn = None
            try:
                if direction is None and int(iters) == 0:
                    dirn = None          # early return before the direction was formed: (z, z, 'interior', 0)
            except Exception:
                dirn = None
            if dirn is not None:
                # the routine's steepest-descent direction must be -P g up to the rounding of one matrix-vector product
                # (a preconditioner applied as a matrix: |err| <= c eps |P||g|; applied as a backward-stable solve with
                # M = P^-1: |err| <= c eps |P||M||P g|)
                Pg = P @ g
                err = onp.abs(dirn + Pg)
                aP = onp.abs(P)
                try:
                    aM = onp.abs(onp.linalg.inv(0.5 * (P + P.T)))
                    solve_term = aP @ (aM @ onp.abs(Pg))
                except Exception:
                    solve_term = 0.0
                bnd = 8 * EPS * (n + 2) * (aP @ onp.abs(g) + solve_term) + onp.finfo(float).tiny
                out["dir_err"] = float((err / bnd).max())
            else:
                out["dir_err"] = None
            mc, tc, mcmag = cauchy_model_value(H, g, P, Minv, Delta, dirn)
            out["mc"], out["mcmag"] = mc, mcmag
            res = onp.asarray(H, dtype=LD) @ onp.asarray(zz, dtype=LD) + onp.asarray(g, dtype=LD)
            out["resnorm"] = float(onp.sqrt(res @ res))
            out["Hnorm"] = float(onp.linalg.norm(H, 2))
            out["gnorm"] = float(onp.linalg.norm(g))
            out["znorm2"] = float(onp.linalg.norm(zz))
        return out
    return _memo(result, build)


_VALID_TYPES = ("boundary", "neg curve", "interior", "interior_")


def _detail_cg(a, extra=None):
    d = {"n": a.get("n"), "stepType": a.get("stepType"), "iters": _f(a.get("iters")), "Delta": a.get("Delta"),
         "preconditioned_inner_product": a.get("pre"), "precond_cond": a.get("pcond")}
    if a.get("n", 99) <= 6 and "H" in a:
        d.update(H=a["H"].tolist(), P=a["P"].tolist(), g=a["g"].tolist(), z=a["z"].tolist())
    d.update(extra or {})
    return d


# named post-conditions: truncated CG ------------------------------------------------------------------------------

def cg_result_is_wellformed(r, hess_vec_func, precond, trSize, settings, result):
    LOG.count("contract_evals:cg")
    a = _cg_analysis(r, hess_vec_func, precond, trSize, settings, result)
    if a["skip"]:
        LOG.count("cg.skipped:" + a["skip"])
        return True
    LOG.count("cg.judged")
    LOG.count("cg.exit:" + str(a["stepType"]))
    LOG.count("cg.mode:" + ("preconditioned_norm" if a["pre"] else "euclidean_norm"))
    ok = (len(result) == 4 and a["stepType"] in _VALID_TYPES and a["finite"]
          and 0 <= int(a["iters"]) <= int(settings.max_cg_iters) and _vec(result[0]).size == a["n"])
    return _expect("cg.wellformed", ok, _detail_cg(a))


def _drift_mechanism(a, excess):
    """Structural classifier of the open finding D20: in preconditioned-inner-product mode the step norm is tracked by
    the Gould-Lucidi-Roma-Toint recurrences (no product with P^-1 is available), which drift once CG loses
    orthogonality.  Keyed on: configured norm = preconditioned AND iters >= DRIFT_MIN_ITERS (calibration on the unchanged
    tree, 38400 preconditioned calls: deviation <= 1.4e-9 up to 4 iterations, 7e-8 at 5, up to 1.4e-2 from 6 on) AND a
    deviation that is not gross (<= DRIFT_CAP).  Euclidean mode and exits within the first 4 iterations -- where a wrong
    recurrence shows just as well -- are not covered and stay violations."""
    if a["pre"] and int(a["iters"]) >= DRIFT_MIN_ITERS and abs(excess) <= DRIFT_CAP:
        LOG.count("cg.norm_recurrence_drift")
        return KEY_NORM_DRIFT
    return None


def _quadform_rounding(M, z):
    """Relative float64 rounding bound of evaluating z.M.z (and hence of any norm the routine itself can form):
    2 (n+2) eps |z|.|M|.|z| / z.M.z  (halved for the square root); 0 for the Euclidean norm."""
    if M is None:
        return 0.0
    z = onp.asarray(z, dtype=float)
    q = float(z @ (M @ z))
    if not (q > 0):
        return 0.0
    return float(2 * (z.size + 2) * EPS * (onp.abs(z) @ (onp.abs(M) @ onp.abs(z))) / q)


def _bound_norm(clause, a, excess):
    in_class = a["pre"] and int(a["iters"]) >= DRIFT_MIN_ITERS
    if in_class:
        LOG.count("cg.norm_checks_in_D20_class")
    # closest calls of the input class of the open finding D20 are reported separately from the must-hold class
    tol = (TOL["in_ball"] if clause.endswith("in_ball") else TOL["boundary"]) + a.get("norm_rounding", 0.0)
    ok = LOG.ratio(clause + ("[D20 class: preconditioned, >=%d iters]" % DRIFT_MIN_ITERS if in_class else ""), excess, tol)
    if ok:
        return True
    d = _detail_cg(a, {"observed": _f(excess), "allowed": tol, "norm": a["norm"]})
    return _fail(clause, d, _drift_mechanism(a, excess))


def cg_step_inside_configured_ball(r, hess_vec_func, precond, trSize, settings, result):
    a = _cg_analysis(r, hess_vec_func, precond, trSize, settings, result)
    if a["skip"] or not a.get("finite"):
        return True
    return _bound_norm("cg.in_ball", a, a["norm"] / a["Delta"] - 1.0)


def cg_model_not_above_cauchy_nor_zero(r, hess_vec_func, precond, trSize, settings, result):
    a = _cg_analysis(r, hess_vec_func, precond, trSize, settings, result)
    if a["skip"] or not a.get("finite"):
        return True
    m, mc = a["m"], a["mc"]
    # rounding floor: the routine cannot evaluate the model (nor the sign of a curvature) more accurately than
    # eps * (sum of the absolute values of the terms), at z and at the Cauchy point
    floor = LD(4 * (a["n"] + 2) * EPS) * (a["mabs"] + a["mcmag"])
    if a["dir_err"] is not None:
        _bound("cg.cauchy_direction", a["dir_err"], 1.0, _detail_cg(a))
    if a["stepType"] == "interior" and int(a["iters"]) == 0:
        # the gradient already meets the stated tolerance ("converged in the interior" before any iteration): the zero
        # step is the documented answer, there is no Cauchy decrease to demand (judged by cg.interior_residual instead)
        LOG.count("cg.zero_step_gradient_below_tolerance")
        return _bound("cg.model_le_zero", float(m), float(floor), _detail_cg(a, {"model": float(m)}))
    # + accuracy of the oracle's own preconditioned norm (P^-1 by numpy.linalg.inv: relative error ~ eps cond(P))
    orc = LD(8 * EPS * a["pcond"]) * abs(mc) if a["pre"] else LD(0)
    ok1 = _bound("cg.model_le_cauchy", float(m - mc), float(LD(TOL["cauchy_rel"]) * abs(mc) + floor + orc),
                 _detail_cg(a, {"model": float(m), "model_cauchy": float(mc)}))
    ok2 = _bound("cg.model_le_zero", float(m), float(floor), _detail_cg(a, {"model": float(m)}))
    if mc < 0:
        LOG.count("cg.cauchy_nontrivial")
        if m < mc - LD(1e-6) * abs(mc):
            LOG.count("cg.strictly_better_than_cauchy")
    return ok1 and ok2


def cg_boundary_types_have_norm_equal_radius(r, hess_vec_func, precond, trSize, settings, result):
    a = _cg_analysis(r, hess_vec_func, precond, trSize, settings, result)
    if a["skip"] or not a.get("finite") or a["stepType"] not in ("boundary", "neg curve"):
        return True
    LOG.count("cg.boundary_norm_checked")
    return _bound_norm("cg.boundary_norm", a, abs(a["norm"] / a["Delta"] - 1.0))


def cg_interior_meets_stated_tolerance(r, hess_vec_func, precond, trSize, settings, result):
    a = _cg_analysis(r, hess_vec_func, precond, trSize, settings, result)
    if a["skip"] or not a.get("finite") or a["stepType"] != "interior":
        return True
    tol = max(float(settings.cg_tol), float(settings.cg_inexact_solve_ratio) * a["gnorm"])
    iters = int(a["iters"])
    if iters == 0:
        LOG.count("cg.interior_zero_iters")
        return _expect("cg.interior_residual", a["gnorm"] <= tol * (1 + 8 * EPS) and not onp.any(a["z"]),
                       _detail_cg(a, {"gnorm": a["gnorm"], "tol": tol}))
    LOG.count("cg.interior_residual_checked")
    # the solver tests its *recurrence* residual; the true residual differs by accumulated rounding, bounded by
    # c eps iters (||H|| ||z|| + ||g||)  (Greenbaum 1997); c = 16
    floor = 16 * EPS * (iters + 1) * (a["Hnorm"] * a["znorm2"] + a["gnorm"])
    if a["resnorm"] > TOL["interior_factor"] * tol:
        LOG.count("cg.interior_residual_above_stated_tolerance_but_within_rounding_floor")
    return _bound("cg.interior_residual", a["resnorm"], TOL["interior_factor"] * tol + floor,
                  _detail_cg(a, {"residual": a["resnorm"], "tol": tol, "rounding_floor": floor}))


# named post-conditions: the sub-space solver's CG variant (Euclidean ball, preconditioned directions) --------------

def subspace_cg_postconditions(r, Pr, HPr, hess_vec_func, precond, trSize, settings, result):
    LOG.count("contract_evals:subspace_cg")
    res4 = (result[0], None, result[1], result[2])
    a = _cg_analysis(r, hess_vec_func, precond, trSize, settings, res4, two_norm_only=True, direction=-_vec(Pr))
    if a["skip"]:
        LOG.count("subspace_cg.skipped:" + a["skip"])
        return True
    LOG.count("subspace_cg.judged")
    LOG.count("subspace_cg.exit:" + str(a["stepType"]))
    ok = _expect("subspace_cg.wellformed", a["stepType"] in _VALID_TYPES and a["finite"], _detail_cg(a))
    if not a["finite"]:
        return ok
    ok &= _bound("subspace_cg.in_ball", a["norm"] / a["Delta"] - 1.0, TOL["in_ball"] + a.get("norm_rounding", 0.0), _detail_cg(a, {"norm": a["norm"]}))
    floor = LD(4 * (a["n"] + 2) * EPS) * (a["mabs"] + a["mcmag"])
    ok &= _bound("subspace_cg.model_le_cauchy", float(a["m"] - a["mc"]), float(LD(TOL["cauchy_rel"]) * abs(a["mc"]) + floor),
                 _detail_cg(a, {"model": float(a["m"]), "model_cauchy": float(a["mc"])}))
    if a["stepType"] in ("boundary", "neg curve"):
        ok &= _bound("subspace_cg.boundary_norm", abs(a["norm"] / a["Delta"] - 1.0), TOL["boundary"], _detail_cg(a))
    if a["stepType"] == "interior" and int(a["iters"]) > 0:
        tol = max(float(settings.cg_tol), float(settings.cg_inexact_solve_ratio) * a["gnorm"])
        floor_r = 16 * EPS * (int(a["iters"]) + 1) * (a["Hnorm"] * a["znorm2"] + a["gnorm"])
        ok &= _bound("subspace_cg.interior_residual", a["resnorm"], TOL["interior_factor"] * tol + floor_r, _detail_cg(a))
    return bool(ok)


# named post-conditions: dogleg ------------------------------------------------------------------------------------

def _dogleg_analysis(cp, newtonP, trSize, mat_mul, result):
    def build():
        out = {"skip": None}
        c = _vec(cp)
        nw = _vec(newtonP)
        n = c.size
        out.update(n=n, cp=c, newton=nw)
        if n > MAX_N:
            out["skip"] = "n>%d" % MAX_N
            return out
        Delta = float(trSize)
        if not (onp.all(onp.isfinite(c)) and onp.all(onp.isfinite(nw)) and math.isfinite(Delta) and Delta > 0):
            out["skip"] = "hypothesis: non-finite points or radius not positive"
            return out
        M = dense_from_closure(mat_mul, n)
        ok, asym, mmin, mmax = spd_report(M)
        if not ok:
            out["skip"] = "hypothesis: metric not SPD"
            return out
        M = 0.5 * (M + M.T)
        d = _vec(result)
        out.update(M=M, d=d, Delta=Delta, finite=bool(onp.all(onp.isfinite(d))) and d.size == n)
        if out["finite"]:
            out["norm"] = float(metric_norm(M, d))
            out["norm_rounding"] = _quadform_rounding(M, d)
            out["cc"] = float(metric_norm(M, c))
            out["nn"] = float(metric_norm(M, nw))
            dist, leg, par = path_distance(c, nw, d)
            out.update(dist=float(dist), leg=leg, par=par)
        return out
    return _memo(result, build)


def _detail_dl(a, extra=None):
    d = {"n": a.get("n"), "Delta": a.get("Delta"), "norm_cp": a.get("cc"), "norm_newton": a.get("nn")}
    if a.get("n", 99) <= 6 and "M" in a:
        d.update(M=a["M"].tolist(), cp=a["cp"].tolist(), newton=a["newton"].tolist(), d=a["d"].tolist())
    d.update(extra or {})
    return d


def dogleg_point_inside_ball(cp, newtonP, trSize, mat_mul, result):
    LOG.count("contract_evals:dogleg")
    a = _dogleg_analysis(cp, newtonP, trSize, mat_mul, result)
    if a["skip"]:
        LOG.count("dogleg.skipped:" + a["skip"])
        return True
    LOG.count("dogleg.judged")
    if not a["finite"]:
        return _expect("dogleg.finite", False, _detail_dl(a))
    # which branch the inputs select (by the oracle's own norms; evidence only)
    D = a["Delta"]
    if a["cc"] >= D:
        LOG.count("dogleg.branch:cauchy_clipped")
    elif a["cc"] > a["nn"]:
        LOG.count("dogleg.branch:cauchy_beyond_newton")
    elif a["nn"] > D:
        LOG.count("dogleg.branch:second_leg")
    else:
        LOG.count("dogleg.branch:newton")
    return _bound("dogleg.in_ball", a["norm"] / D - 1.0, TOL["in_ball"] + a["norm_rounding"], _detail_dl(a, {"norm": a["norm"]}))


def dogleg_point_on_path(cp, newtonP, trSize, mat_mul, result):
    a = _dogleg_analysis(cp, newtonP, trSize, mat_mul, result)
    if a["skip"] or not a.get("finite"):
        return True
    dn = float(onp.linalg.norm(a["d"]))
    allowed = TOL["path_rel"] * dn + 64 * EPS * (float(onp.linalg.norm(a["cp"])) + float(onp.linalg.norm(a["newton"])))
    LOG.count("dogleg.on_leg%d" % a["leg"])
    return _bound("dogleg.on_path", a["dist"], allowed, _detail_dl(a, {"distance": a["dist"], "leg": a["leg"], "parameter": a["par"]}))


# named post-conditions: exact solver ------------------------------------------------------------------------------

def _exact_analysis(A, b, Delta, result):
    def build():
        out = {"skip": None}
        Ad = onp.asarray(A, dtype=float)
        bd = _vec(b)
        n = bd.size
        out.update(n=n)
        if n > MAX_N:
            out["skip"] = "n>%d" % MAX_N
            return out
        D = float(Delta)
        if not (onp.all(onp.isfinite(Ad)) and onp.all(onp.isfinite(bd)) and math.isfinite(D) and D > 0):
            out["skip"] = "hypothesis: non-finite data or radius not positive"
            return out
        sc = max(float(onp.abs(Ad).max()), 1e-300)
        if float(onp.abs(Ad - Ad.T).max()) > 1e-8 * sc:
            out["skip"] = "hypothesis: matrix not symmetric"
            return out
        s = _vec(result)
        out.update(A=Ad, b=bd, Delta=D, s=s, finite=bool(onp.all(onp.isfinite(s))) and s.size == n)
        ref = trs_global_min(Ad, bd, D)
        out["ref"] = ref
        if out["finite"]:
            m, mabs = model_value(Ad, bd, s)
            out["m"] = m
            out["norm"] = float(metric_norm(None, s))
        out["Anorm"] = float(max(abs(ref["sig"][0]), abs(ref["sig"][-1])))
        # Interior reference that is honest about conditioning: when the matrix as given is positive definite (extended
        # precision Cholesky succeeds) and its Newton step lies inside the ball, the reference value is the model AT that
        # step, evaluated exactly -- an upper bound of the true minimum that does not inherit the eps*cond error of a float64
        # eigen-decomposition.  Used whenever the float64 oracle says "interior" or the lowest eigenvalue is tiny.
        out["interior_ref"] = None
        sg = ref["sig"]
        if sg[-1] > 0 and sg[0] > -64 * EPS * out["Anorm"] and (ref["case"] == "interior" or sg[0] < 1e-6 * sg[-1]):
            sN = newton_step_longdouble(Ad, bd)
            if sN is not None:
                nN = float(onp.sqrt(sN @ sN))
                if nN <= D * (1 + 1e-9):
                    mN, _ = model_value(Ad, bd, sN)
                    out["interior_ref"] = {"m": mN, "norm": nN, "cond": float(sg[-1] / max(sg[0], EPS * sg[-1] * 1e-3))}
        out["bnorm"] = float(onp.linalg.norm(bd))
        return out
    return _memo(result, build)


def _detail_ex(a, extra=None):
    d = {"n": a.get("n"), "Delta": a.get("Delta")}
    if "ref" in a:
        d.update(ref_case=a["ref"]["case"], ref_model=float(a["ref"]["m"]), ref_multiplier=a["ref"]["lam"],
                 pole_gap=a["ref"]["pole_gap"])
    if a.get("n", 99) <= 6 and "A" in a:
        d.update(A=a["A"].tolist(), b=a["b"].tolist(), s=a["s"].tolist())
    d.update(extra or {})
    return d


def exact_step_inside_ball(A, b, Delta, result):
    LOG.count("contract_evals:exact")
    a = _exact_analysis(A, b, Delta, result)
    if a["skip"]:
        LOG.count("exact.skipped:" + a["skip"])
        return True
    LOG.count("exact.judged")
    LOG.count("exact.case:" + a["ref"]["case"])
    if not a["finite"]:
        LOG.checks += 1
        # structural classifier of the open finding "all-zero matrix": keyed on the input alone
        mech = KEY_ZERO_MATRIX if not onp.any(a["A"]) else None
        if mech:
            LOG.count("exact.nonfinite_zero_matrix")
        return _fail("exact.finite", _detail_ex(a), mech)
    return _bound("exact.in_ball", a["norm"] / a["Delta"] - 1.0, TOL["exact_ball"], _detail_ex(a, {"norm": a["norm"]}))


def exact_step_is_global_minimizer(A, b, Delta, result):
    a = _exact_analysis(A, b, Delta, result)
    if a["skip"] or not a.get("finite"):
        return True
    D = a["Delta"]
    ir = a.get("interior_ref")
    if ir is not None:
        # true minimiser interior: model(s) <= model(Newton) + 1e-7 |m| + rounding of the eigen-decomposition (backward error
        # 64 eps ||A|| on a step of length <= Delta) + the forward error of dividing by a lowest eigenvalue that float64 only
        # knows to eps*cond: |m| min(1, (8 eps cond)^2).  The routine's hard-case tolerance does NOT apply: no multiplier.
        LOG.count("exact.interior_reference_used")
        mstar = ir["m"]
        ec = min(1.0, (8 * EPS * ir["cond"]) ** 2)
        allowed = (LD(TOL["exact_rel"]) * abs(mstar) + LD(64 * EPS) * (LD(a["Anorm"]) * D * D + LD(a["bnorm"]) * D)
                   + LD(ec) * abs(mstar) + LD(8) * LD(onp.finfo(float).tiny) * D * D)
        return _bound("exact.global_min", float(a["m"] - mstar), float(allowed),
                      _detail_ex(a, {"model": float(a["m"]), "model_newton": float(mstar), "newton_norm": ir["norm"], "cond": ir["cond"]}))
    mstar = a["ref"]["m"]
    # 1e-7 |m*|  +  rounding of the eigen-decomposition  +  the routine's own hard-case tolerance eps = 1e-12 mean|sigma|
    # (a multiplier within eps of the pole is treated as the hard case: sub-optimality <= eps Delta^2 / 2)
    allowed = (LD(TOL["exact_rel"]) * abs(mstar) + LD(64 * EPS) * (LD(a["Anorm"]) * D * D + LD(a["bnorm"]) * D)
               + LD(1e-12) * LD(float(onp.mean(onp.abs(a["ref"]["sig"])))) * D * D
               + LD(8) * LD(onp.finfo(float).tiny) * D * D)          # the oracle's own pole offset (denormal floor), matters for A = 0, b = 0
    return _bound("exact.global_min", float(a["m"] - mstar), float(allowed), _detail_ex(a, {"model": float(a["m"])}))


# --------------------------------------------------------------------------- loop observer for the un-capped exact solver

_LOOP = {"active": False, "n": 0, "seen": None, "orig_pnorm": None}


def _pnorm_squared_observer(bvv, sig):
    """Path observer on treigen.pnorm_squared (looked up as a module global on every secular iteration).

    The secular loop is deterministic and its whole state is the shifted spectrum sig + lam; the Newton increment is at
    least 1e-9 (the loop's own exit tolerance) relative to the smallest shifted eigenvalue, so the shifted spectrum can
    only repeat if lam itself stopped changing or cycles: a repeated argument proves that the loop never terminates.
    A plain iteration cap backs this up.  Raises ExactSolverNoReturn instead of letting the process spin."""
    if _LOOP["active"]:
        _LOOP["n"] += 1
        key = onp.asarray(sig, dtype=float).tobytes()
        if key in _LOOP["seen"]:
            n = _LOOP["n"]
            _LOOP["active"] = False
            LOG.count("exact.loop_state_repeated")
            raise ExactSolverNoReturn("secular iteration state repeated at evaluation %d (deterministic loop => never returns)" % n)
        _LOOP["seen"].add(key)
        cap = SECULAR_ITERATION_CAP if _LOOP.get("cap_events", 0) < 10 else SECULAR_ITERATION_CAP // 4
        if _LOOP["n"] > cap:
            _LOOP["active"] = False
            _LOOP["cap_events"] = _LOOP.get("cap_events", 0) + 1
            LOG.count("exact.loop_cap_exceeded")
            raise ExactSolverNoReturn("more than %d secular iterations (a converging call needs < 20)" % cap)
    return _LOOP["orig_pnorm"](bvv, sig)


def _guard_exact(func):
    import functools

    @functools.wraps(func)
    def solve(A, b, Delta):
        LOG.count("exact.calls_entered")
        _LOOP.update(active=_LOOP["orig_pnorm"] is not None and not _LOOP.get("disabled", False), n=0, seen=set())
        try:
            return func(A, b, Delta)
        finally:
            LOG.count("exact.secular_evaluations", _LOOP["n"])
            LOG.ratio("exact.secular_evaluations_per_call_vs_cap", _LOOP["n"], SECULAR_ITERATION_CAP)
            LOG.checks -= 1
            _LOOP["active"] = False
    solve.__c06_unguarded__ = func
    return solve


def classify_no_return(A, b, Delta):
    """Structural classifier of the open finding D18: the optimal multiplier lies so close to the pole -sigma_1 that
    float64 cannot resolve sigma_1 + lambda to the 1e-9 accuracy the loop demands (ulp(lambda)/(sigma_1+lambda) >= 1e-10).
    Computed by the oracle from the input alone.  Returns (mechanism key or None, oracle record)."""
    ref = trs_global_min(A, b, Delta)
    near_pole = (ref["case"] == "boundary" and ref["lam"] > 0 and ref["sig"][0] < 0 and ref["pole_gap"] <= 2.5e-6 * ref["lam"])
    return (KEY_NEAR_POLE if near_pole else None), ref


# --------------------------------------------------------------------------- installation

def _contracted(func, conditions):
    import icontract
    wrapped = func
    for cond in conditions:      # icontract evaluates stacked post-conditions innermost first: conditions[0] runs first
        wrapped = icontract.ensure(cond, error=C06ContractViolation, enabled=True)(wrapped)
    wrapped.__c06_original__ = func
    return wrapped


CG_CONDITIONS = (cg_result_is_wellformed, cg_step_inside_configured_ball, cg_model_not_above_cauchy_nor_zero,
                 cg_boundary_types_have_norm_equal_radius, cg_interior_meets_stated_tolerance)
DOGLEG_CONDITIONS = (dogleg_point_inside_ball, dogleg_point_on_path)
EXACT_CONDITIONS = (exact_step_inside_ball, exact_step_is_global_minimizer)
SUBSPACE_CG_CONDITIONS = (subspace_cg_postconditions,)


def install_contracts(mode="record", subspace=True):
    """Wrap the module attributes with the C06 post-conditions (idempotent).  Returns the dict of original callables."""
    from optimism import EquationSolver
    from optimism.treigen import treigen
    _STATE["mode"] = mode
    inst = _STATE["installed"]
    if "cg" not in inst:
        inst["cg"] = (EquationSolver, "solve_trust_region_minimization", EquationSolver.solve_trust_region_minimization)
        EquationSolver.solve_trust_region_minimization = _contracted(EquationSolver.solve_trust_region_minimization, CG_CONDITIONS)
        inst["dogleg"] = (EquationSolver, "dogleg_step", EquationSolver.dogleg_step)
        EquationSolver.dogleg_step = _contracted(EquationSolver.dogleg_step, DOGLEG_CONDITIONS)
        inst["exact"] = (treigen, "solve", treigen.solve)
        if hasattr(treigen, "pnorm_squared"):
            inst["exact_pnorm"] = (treigen, "pnorm_squared", treigen.pnorm_squared)
            _LOOP["orig_pnorm"] = treigen.pnorm_squared
            treigen.pnorm_squared = _pnorm_squared_observer
        else:
            LOG.count("exact.loop_observer_unavailable")
        treigen.solve = _contracted(_guard_exact(treigen.solve), EXACT_CONDITIONS)
    if subspace and "subspace_cg" not in inst:
        try:
            from optimism import EquationSolverSubspace as ESS
            inst["subspace_cg"] = (ESS, "trust_region_cg", ESS.trust_region_cg)
            ESS.trust_region_cg = _contracted(ESS.trust_region_cg, SUBSPACE_CG_CONDITIONS)
        except Exception as e:  # the sub-space module is optional for in-situ users
            LOG.count("subspace_cg.install_failed")
    return {k: v[2] for k, v in inst.items()}


def set_loop_observer(enabled):
    """Disable / enable the secular-loop observer (the C06 harness disables it to confirm a hang by wall clock)."""
    _LOOP["disabled"] = not enabled


def uninstall_contracts():
    for k, (mod, name, orig) in list(_STATE["installed"].items()):
        setattr(mod, name, orig)
    _STATE["installed"].clear()
    _LOOP["orig_pnorm"] = None


def transfer(res, prefix=""):
    """Move everything logged since the last transfer into a vlib.common.Res (violations, closest calls, counters)."""
    for clause, r in LOG.ratios.items():
        k = prefix + clause
        if r > res.ratios.get(k, -1.0):
            res.ratios[k] = r
    res.checks += LOG.checks
    for v in LOG.violations:
        res.violate(prefix + v["clause"], v["detail"], v.get("mechanism"))
    for k, n in LOG.counters.items():
        res.count(prefix + k, n)
    LOG.reset()


# --------------------------------------------------------------------------- watchdog for the un-capped exact solver

class _Alarm(Exception):
    pass


def _on_alarm(signum, frame):
    raise _Alarm()


def call_with_watchdog(fn, args, budget_s):
    """Run fn(*args) under a SIGALRM budget (the exact solver's `while` loop has no iteration cap).  Raises
    ExactSolverNoReturn when the budget is exhausted.  Main thread only."""
    old = signal.signal(signal.SIGALRM, _on_alarm)
    signal.setitimer(signal.ITIMER_REAL, budget_s)
    try:
        return fn(*args)
    except _Alarm:
        raise ExactSolverNoReturn("no return within %.1f s" % budget_s)
    finally:
        signal.setitimer(signal.ITIMER_REAL, 0)
        signal.signal(signal.SIGALRM, old)
