"""Minimal stand-in for scikit-sparse's cholmod (absent in the sandbox).
Dense Cholesky via numpy; same observable contract as used by optimism.SparseCholesky."""
import numpy as np
import scipy.linalg as sla

class CholmodNotPositiveDefiniteError(Exception):
    pass

class Factor:
    def __init__(self):
        self._c = None
    def cholesky_inplace(self, A):
        Ad = np.asarray(A.todense() if hasattr(A, 'todense') else A, dtype=float)
        try:
            L = np.linalg.cholesky(Ad)
        except np.linalg.LinAlgError as e:
            raise CholmodNotPositiveDefiniteError(str(e))
        self._c = (L, True)
    def cholesky(self, A):
        f = Factor(); f.cholesky_inplace(A); return f
    def __call__(self, b):
        return sla.cho_solve(self._c, np.asarray(b, dtype=float), check_finite=False)  # like CHOLMOD: NaN in, NaN out
    solve_A = __call__

def analyze(A, mode=None, ordering_method=None):
    return Factor()

def cholesky(A, **kw):
    f = Factor(); f.cholesky_inplace(A); return f
