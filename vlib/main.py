"""CLI: ./check <PROP> [--tier quick|thorough] [--replay file] [--jobs N]

Exit 0: property held on everything explored (KNOWN-FINDING lines may be printed).
Exit 1: VIOLATION property=<id> replay=<path>   (a violation no open known finding explains)
Exit 2: INCONCLUSIVE property=<id> reason=...   (a deciding monitor was not reached often enough)
"""
import argparse
import importlib
import json
import os
import shutil
import subprocess
import sys
import time

HERE = os.path.dirname(os.path.dirname(os.path.abspath(__file__)))
for p in (os.path.join(HERE, ".deps"), HERE):
    if p not in sys.path:
        sys.path.insert(0, p)

from vlib.common import case_key, sanitize, env_seed  # noqa: E402

PROP_MODULES = {
    "C01": "props.c01_trust_region", "C02": "props.c02_stiffness", "C03": "props.c03_funcspace",
    "C04": "props.c04_alsolver", "C05": "props.c05_spg", "C06": "props.c06_subproblem",
    "C07": "props.c07_sensitivity", "C08": "props.c08_objectivity", "C09": "props.c09_j2update",
    "C10": "props.c10_derivatives", "C11": "props.c11_visco", "C12": "props.c12_tensormath",
    "C13": "props.c13_mesh", "C14": "props.c14_dofs", "C15": "props.c15_newmark",
    "C16": "props.c16_contact", "C17": "props.c17_rootfind", "C18": "props.c18_smooth",
    "C19": "props.c19_loadstep", "C20": "props.c20_vtk",
}


def worker_env(jobs):
    env = dict(os.environ)
    env["PYTHONHASHSEED"] = "0"
    env["PYTHONDONTWRITEBYTECODE"] = "1"
    env["OMP_NUM_THREADS"] = "1"
    env["OPENBLAS_NUM_THREADS"] = "1"
    env["MKL_NUM_THREADS"] = "1"
    env["XLA_FLAGS"] = "--xla_cpu_multi_thread_eigen=false intra_op_parallelism_threads=1"
    env["JAX_PLATFORMS"] = "cpu"
    env["OPTIMISM_VERIF"] = "1"
    env.setdefault("VERIF_REPO", "/repo")
    env["PYTHONPATH"] = HERE
    return env


def shard_cases(cases, nshards):
    """Keep cases of one 'group' together (shared compilations); balance by cost."""
    groups = {}
    for c in cases:
        groups.setdefault(c.get("group", c.get("cls", "_")), []).append(c)
    items = sorted(groups.items(), key=lambda kv: -sum(c.get("cost", 1.0) for c in kv[1]))
    shards = [[] for _ in range(max(1, nshards))]
    loads = [0.0] * len(shards)
    for _, cs in items:
        i = loads.index(min(loads))
        shards[i].extend(cs)
        loads[i] += sum(c.get("cost", 1.0) for c in cs)
    return [s for s in shards if s]


def run_shards(modname, cases, jobs, timeout_s, workdir):
    shards = shard_cases(cases, jobs)
    procs = []
    env = worker_env(jobs)
    for i, sh in enumerate(shards):
        sf = os.path.join(workdir, "shard%d.json" % i)
        of = os.path.join(workdir, "out%d.jsonl" % i)
        ef = os.path.join(workdir, "err%d.txt" % i)
        json.dump(sh, open(sf, "w"))
        p = subprocess.Popen([sys.executable, "-m", "vlib.worker", modname, sf, of],
                             cwd=HERE, env=env, stdout=subprocess.DEVNULL, stderr=open(ef, "w"))
        procs.append((p, sh, of, ef))
    t0 = time.time()
    results = []
    notes = []
    for p, sh, of, ef in procs:
        remaining = max(1.0, timeout_s - (time.time() - t0))
        timed_out = False
        try:
            p.wait(timeout=remaining)
        except subprocess.TimeoutExpired:
            p.kill()
            p.wait()
            timed_out = True
        got = []
        done = False
        if os.path.exists(of):
            for line in open(of):
                try:
                    d = json.loads(line)
                except Exception:
                    continue
                if d.get("shard_done"):
                    done = True
                else:
                    got.append(d)
        results.extend(got)
        if not done:
            missing = sh[len(got):]
            err = ""
            try:
                err = open(ef).read()[-800:]
            except Exception:
                pass
            why = "watchdog" if timed_out else "worker died rc=%s" % p.returncode
            notes.append("%s after %d/%d cases: %s" % (why, len(got), len(sh), err.strip().replace("\n", " | ")[-400:]))
            for k, c in enumerate(missing):
                results.append({"case": c, "status": "inconclusive", "checks": 0, "violations": [],
                                "ratios": {}, "obs": {}, "nontrivial": False,
                                "note": why + (" (first unfinished case)" if k == 0 else "")})
    return results, notes


def load_known(prop):
    path = os.path.join(HERE, "known_findings.json")
    try:
        allents = list(json.load(open(path)).get("findings", []))
    except FileNotFoundError:
        allents = []
    ddir = os.path.join(HERE, "known_findings.d")
    if os.path.isdir(ddir):
        for fn in sorted(os.listdir(ddir)):
            if fn.endswith(".json"):
                allents.extend(json.load(open(os.path.join(ddir, fn))))
    ents = [e for e in allents if e.get("property") == prop]
    return [e for e in ents if e.get("status") == "open"], [e for e in ents if e.get("status") == "fixed"]


def validate_evidence(ev):
    try:
        import jsonschema
        schema = json.load(open("/root/.vp/EVIDENCE.schema.json"))
        jsonschema.validate(ev, schema)
        return None
    except FileNotFoundError:
        return None
    except ImportError:
        return None
    except Exception as e:  # noqa
        return str(e)[:500]


def main(argv=None):
    ap = argparse.ArgumentParser()
    ap.add_argument("prop")
    ap.add_argument("--tier", default=os.environ.get("VERIF_TIER", "quick"), choices=["quick", "thorough"])
    ap.add_argument("--replay")
    ap.add_argument("--jobs", type=int, default=int(os.environ.get("VERIF_JOBS", "0")) or (os.cpu_count() or 4))
    ap.add_argument("--only", help="restrict to case classes containing this substring (debugging; evidence not written)")
    ap.add_argument("--keep", action="store_true")
    args = ap.parse_args(argv)
    prop = args.prop.upper()
    modname = PROP_MODULES[prop]
    seed = env_seed()
    t0 = time.time()

    if args.replay:
        return replay(prop, modname, args.replay)

    # case generation happens in the parent but must not import optimism/jax
    mod = importlib.import_module(modname)
    cases = mod.build_cases(args.tier, seed)
    if args.only:
        cases = [c for c in cases if args.only in c.get("cls", "")]
    for i, c in enumerate(cases):
        c.setdefault("idx", i)
    workdir = os.path.join(HERE, ".work", "%s-%d" % (prop, os.getpid()))
    os.makedirs(workdir, exist_ok=True)
    timeout_s = float(getattr(mod, "WATCHDOG_S", {}).get(args.tier, 3600 if args.tier == "quick" else 4 * 3600))
    try:
        results, notes = run_shards(modname, cases, args.jobs, timeout_s, workdir)
    finally:
        if not args.keep:
            shutil.rmtree(workdir, ignore_errors=True)

    rc = conclude(prop, mod, args.tier, seed, cases, results, notes, t0, write=(args.only is None))
    return rc


def conclude(prop, mod, tier, seed, cases, results, notes, t0, write=True):
    open_f, fixed_f = load_known(prop)
    open_keys = {e["key"]: e for e in open_f}
    counts = {"held": 0, "violated": 0, "vacuous": 0, "inconclusive": 0}
    per_class = {}
    obs = {}
    ratios = {}
    seen = set()
    distinct_nontrivial = 0
    checks = 0
    known_hits = {}
    new_viol = []
    for r in results:
        st = r.get("status", "inconclusive")
        counts[st] = counts.get(st, 0) + 1
        cls = r["case"].get("cls", "_")
        pc = per_class.setdefault(cls, {"n": 0, "nontrivial": 0, "violated": 0, "vacuous": 0, "inconclusive": 0})
        pc["n"] += 1
        if st in pc:
            pc[st] += 1
        checks += r.get("checks", 0)
        for k, v in r.get("obs", {}).items():
            if isinstance(v, (int, float)):
                obs[k] = obs.get(k, 0) + v
        for k, v in r.get("ratios", {}).items():
            if v is None:
                continue
            if k not in ratios or v > ratios[k][0]:
                ratios[k] = (v, {kk: vv for kk, vv in r["case"].items() if kk in ("cls", "seed", "idx")})
        key = case_key({k: v for k, v in r["case"].items() if k not in ("idx", "cost", "group")})
        if r.get("nontrivial") and key not in seen and st != "inconclusive":
            distinct_nontrivial += 1
            pc["nontrivial"] += 1
        seen.add(key)
        if st == "violated":
            unexplained = [v for v in r["violations"] if v.get("mechanism") not in open_keys]
            for v in r["violations"]:
                m = v.get("mechanism")
                if m in open_keys:
                    known_hits.setdefault(m, []).append(r)
            if unexplained:
                new_viol.append((r, unexplained))

    # required observation counts (else inconclusive)
    required = {}
    req = getattr(mod, "REQUIRED", {})
    required.update(req.get("all", {}))
    required.update(req.get(tier, {}))
    missing = []
    for name, minimum in required.items():
        have = obs.get(name, 0) if not name.startswith("class:") else per_class.get(name[6:], {}).get("n", 0)
        if have < minimum:
            missing.append("%s=%s<%s" % (name, have, minimum))
    n = len(results)
    vac_cap = getattr(mod, "MAX_VACUOUS_FRACTION", 0.5)
    if n and counts["vacuous"] / n > vac_cap:
        missing.append("vacuous fraction %.2f > %.2f" % (counts["vacuous"] / n, vac_cap))
    if counts["inconclusive"]:
        ex = next(r for r in results if r.get("status") == "inconclusive")
        missing.append("%d inconclusive cases (e.g. %s: %s)" % (counts["inconclusive"], ex["case"].get("cls"),
                                                                 (ex.get("note") or "").strip().split("\n")[-1][:200]))
    if checks == 0:
        missing.append("no oracle evaluations")
    if distinct_nontrivial < 2:
        missing.append("fewer than 2 distinct non-trivial cases")

    extra = {}
    fin = getattr(mod, "finalize", None)
    if fin is not None:
        try:
            extra = fin(results, tier) or {}
        except Exception as e:  # noqa
            extra = {"finalize_error": str(e)}
        for m in extra.pop("_missing", []):
            missing.append(m)

    # replays
    rc = 0
    lines = []
    replay_dir = os.path.join(HERE, "replays", prop)
    if new_viol:
        os.makedirs(replay_dir, exist_ok=True)
        for r, unexplained in new_viol[:25]:
            c = r["case"]
            path = os.path.join(replay_dir, "%s-%s-%s.json" % (c.get("cls", "case").replace("/", "_"), c.get("idx", 0), seed))
            json.dump({"property": prop, "tier": tier, "verif_seed": seed, "case": c, "violations": r["violations"]},
                      open(path, "w"), indent=1, default=str)
            lines.append("VIOLATION property=%s replay=%s" % (prop, path))
            v0 = unexplained[0]
            lines.append("  clause=%s mechanism=%s detail=%s" % (v0.get("clause"), v0.get("mechanism"), json.dumps(v0.get("detail"))[:400]))
        rc = 1
    for m, rs in sorted(known_hits.items()):
        e = open_keys[m]
        lines.append("KNOWN-FINDING: property=%s %s [%s; key=%s; %d case(s) this run]" % (prop, e.get("summary", ""), e.get("id", "?"), m, len(rs)))
    for e in open_f:
        if e["key"] not in known_hits:
            lines.append("note: open finding %s (key=%s) was not exercised by this run" % (e.get("id"), e["key"]))
    if rc == 0 and missing:
        rc = 2
        lines.append("INCONCLUSIVE property=%s reason=%s" % (prop, "; ".join(missing)[:1500]))
    for nline in notes:
        lines.append("note: " + nline)

    sample_res = [r for r in results if r.get("nontrivial")][:3] or results[:3]
    samples = [{"case": r["case"], "status": r["status"], "checks": r.get("checks"), "ratios": r.get("ratios"), "obs": r.get("obs")}
               for r in sample_res]
    wall = time.time() - t0
    level = getattr(mod, "LEVEL", "exploration")
    coverage = {
        "evaluations": len(results),
        "distinct_nontrivial": distinct_nontrivial,
        "rule": getattr(mod, "RULE", ""),
        "samples": samples,
        "oracle_checks": checks,
        "status_counts": counts,
        "per_class": per_class,
        "observed": obs,
        "closest_calls": {k: {"ratio": v[0], "case": v[1]} for k, v in sorted(ratios.items())},
        "known_findings_hit": {m: len(rs) for m, rs in known_hits.items()},
        "unexplained_violations": len(new_viol),
        "required_minimums": required,
        "verdict": {0: "held", 1: "violated", 2: "inconclusive"}[rc],
        "repo": os.environ.get("VERIF_REPO", "/repo"),
    }
    coverage.update(extra)
    ev = {
        "property_id": prop, "tier": tier, "seed": seed, "level": level,
        "coverage": sanitize(coverage),
        "assumptions": list(getattr(mod, "ASSUMPTIONS", [])),
        "wall_s": round(wall, 2),
        "violations": len(new_viol),
    }
    evdir = os.environ.get("VERIF_EVIDENCE_DIR") or os.path.join(HERE, "evidence")
    if os.environ.get("VERIF_REPO", "/repo").rstrip("/") != "/repo" and not os.environ.get("VERIF_EVIDENCE_DIR"):
        # runs against a scratch copy (mutants, pre-fix tree) never overwrite the committed evidence
        evdir = os.path.join(HERE, ".work", "evidence_scratch")
    if write:
        os.makedirs(evdir, exist_ok=True)
        err = validate_evidence(ev)
        if err:
            lines.append("note: evidence failed schema validation: " + err)
        with open(os.path.join(evdir, prop + ".json"), "w") as f:
            json.dump(ev, f, indent=1, default=str)
    print("%s tier=%s seed=%d cases=%d held=%d violated=%d vacuous=%d inconclusive=%d oracle_checks=%d distinct_nontrivial=%d wall=%.1fs"
          % (prop, tier, seed, len(results), counts["held"], counts["violated"], counts["vacuous"], counts["inconclusive"],
             checks, distinct_nontrivial, wall))
    worst = sorted(((v[0], k) for k, v in ratios.items()), reverse=True)[:6]
    if worst:
        print("closest calls (observed/allowed): " + ", ".join("%s=%.3g" % (k, v) for v, k in worst))
    if obs:
        print("observed: " + ", ".join("%s=%s" % (k, int(v) if float(v).is_integer() else round(v, 3)) for k, v in sorted(obs.items())[:60]))
    for l in lines:
        print(l)
    return rc


def replay(prop, modname, path):
    """Re-run one recorded case in a fresh worker process with diagnostics."""
    rec = json.load(open(path))
    case = rec["case"]
    workdir = os.path.join(HERE, ".work", "%s-replay-%d" % (prop, os.getpid()))
    os.makedirs(workdir, exist_ok=True)
    try:
        results, notes = run_shards(modname, [case], 1, 3600, workdir)
    finally:
        shutil.rmtree(workdir, ignore_errors=True)
    r = results[0]
    print(json.dumps(sanitize(r), indent=1, default=str))
    open_f, _ = load_known(prop)
    keys = {e["key"] for e in open_f}
    bad = [v for v in r.get("violations", []) if v.get("mechanism") not in keys]
    if bad:
        print("VIOLATION property=%s replay=%s" % (prop, path))
        return 1
    return 0 if r.get("status") != "inconclusive" else 2


if __name__ == "__main__":
    sys.exit(main())
