"""Worker process: imports optimism fresh from VERIF_REPO and runs one shard.

usage: python -m vlib.worker <prop_module> <shard.json> <out.jsonl>
"""
import importlib
import json
import os
import sys
import time
import traceback


def setup_paths():
    here = os.path.dirname(os.path.dirname(os.path.abspath(__file__)))
    repo = os.environ.get("VERIF_REPO", "/repo")
    for p in (os.path.join(here, ".deps"), os.path.join(here, "vlib", "shims"), here, repo):
        if p in sys.path:
            sys.path.remove(p)
        sys.path.insert(0, p)
    os.environ.setdefault("OPTIMISM_VERIF", "1")
    return repo


def check_import_origin(repo):
    import optimism
    origin = os.path.dirname(os.path.abspath(optimism.__file__))
    want = os.path.join(os.path.abspath(repo), "optimism")
    if os.path.realpath(origin) != os.path.realpath(want):
        raise RuntimeError("optimism imported from %s, expected %s" % (origin, want))


def run_one(mod, case):
    from vlib.common import Res
    import io
    import contextlib
    t0 = time.time()
    buf = io.StringIO()
    try:
        with contextlib.redirect_stdout(buf):
            r = mod.run_case(case)
        out = r.to_json() if isinstance(r, Res) else r
    except Exception as e:  # harness or library raised outside any expected place
        res = Res(case)
        handler = getattr(mod, "on_exception", None)
        handled = False
        if handler is not None:
            try:
                handled = handler(case, e, res)
            except Exception:
                handled = False
        if not handled:
            res.inconclusive("exception: %s: %s" % (type(e).__name__, str(e)[:300]))
            res.violations = []
            res.obs["traceback"] = 1
            res.note = (res.note or "") + "\n" + traceback.format_exc()[-1500:]
        out = res.to_json()
    out["wall_s"] = round(time.time() - t0, 3)
    return out


def main():
    prop_mod, shard_file, out_file = sys.argv[1:4]
    repo = setup_paths()
    check_import_origin(repo)
    mod = importlib.import_module(prop_mod)
    cases = json.load(open(shard_file))
    with open(out_file, "a", buffering=1) as out:
        for case in cases:
            r = run_one(mod, case)
            out.write(json.dumps(r, default=str) + "\n")
        out.write(json.dumps({"shard_done": True}) + "\n")


if __name__ == "__main__":
    main()
