"""Shared helpers for the property modules: seeds, result records, small numerics.

Nothing in here imports optimism; the worker decides where optimism comes from.
"""
import hashlib
import json
import math
import os

import numpy as onp

EPS = float(onp.finfo(float).eps)


def derive_seed(*parts):
    """Deterministic 63-bit seed from (VERIF_SEED, property, class, index...)."""
    h = hashlib.blake2b(("/".join(str(p) for p in parts)).encode(), digest_size=8).digest()
    return int.from_bytes(h, "big") >> 1


def rng_of(seed):
    return onp.random.default_rng(int(seed))


def case_key(obj):
    """Canonical hash of a JSON-able description (used for distinctness)."""
    s = json.dumps(obj, sort_keys=True, default=_jsonable)
    return hashlib.blake2b(s.encode(), digest_size=8).hexdigest()


def _jsonable(o):
    if isinstance(o, (onp.floating,)):
        return float(o)
    if isinstance(o, (onp.integer,)):
        return int(o)
    if isinstance(o, (onp.bool_,)):
        return bool(o)
    if hasattr(o, "tolist"):
        return onp.asarray(o).tolist()
    if isinstance(o, (set, frozenset)):
        return sorted(o)
    if isinstance(o, complex):
        return [o.real, o.imag]
    return repr(o)


def jdump(obj, **kw):
    return json.dumps(sanitize(obj), default=_jsonable, **kw)


def sanitize(o):
    """Make nan/inf JSON-schema friendly (strings) and numpy -> python."""
    if isinstance(o, dict):
        return {str(k): sanitize(v) for k, v in o.items()}
    if isinstance(o, (list, tuple)):
        return [sanitize(v) for v in o]
    if isinstance(o, (onp.floating, float)):
        f = float(o)
        if math.isnan(f):
            return "nan"
        if math.isinf(f):
            return "inf" if f > 0 else "-inf"
        return f
    if isinstance(o, (onp.integer,)):
        return int(o)
    if isinstance(o, (onp.bool_,)):
        return bool(o)
    if hasattr(o, "tolist") and not isinstance(o, (str, bytes)):
        return sanitize(onp.asarray(o).tolist())
    return o


class Res:
    """Accumulator for what one case observed.

    checks      number of oracle evaluations made
    violations  list of {clause, mechanism, detail}; mechanism is a structural
                tag assigned where the violation is detected (never a hash)
    ratios      clause -> largest observed/allowed ratio (closest call)
    obs         free counters (exits seen, step types, branch sides ...)
    """

    def __init__(self, case):
        self.case = case
        self.status = "held"
        self.checks = 0
        self.violations = []
        self.ratios = {}
        self.obs = {}
        self.nontrivial = False
        self.note = None

    def count(self, name, n=1):
        self.obs[name] = self.obs.get(name, 0) + n

    def ratio(self, clause, observed, allowed):
        """Record observed/allowed; returns True if within tolerance."""
        self.checks += 1
        try:
            observed = float(observed)
            allowed = float(allowed)
        except Exception:
            observed = float("nan")
        if not math.isfinite(observed):
            r = float("inf")
        elif allowed <= 0:
            r = 0.0 if observed <= 0 else float("inf")
        else:
            r = observed / allowed
        if r > self.ratios.get(clause, -1.0):
            self.ratios[clause] = r
        return r <= 1.0

    def expect(self, clause, ok, detail=None, mechanism=None):
        """Boolean oracle; records a violation when not ok."""
        self.checks += 1
        if not ok:
            self.violate(clause, detail, mechanism)
        return bool(ok)

    def bound(self, clause, observed, allowed, detail=None, mechanism=None):
        ok = self.ratio(clause, observed, allowed)
        if not ok:
            d = {"observed": observed, "allowed": allowed}
            if detail:
                d.update(detail if isinstance(detail, dict) else {"info": detail})
            self.violate(clause, d, mechanism)
        return ok

    def violate(self, clause, detail=None, mechanism=None):
        self.status = "violated"
        if len(self.violations) < 20:
            self.violations.append({"clause": clause, "mechanism": mechanism, "detail": sanitize(detail)})

    def vacuous(self, why):
        if self.status == "held":
            self.status = "vacuous"
            self.note = why

    def inconclusive(self, why):
        if self.status in ("held", "vacuous"):
            self.status = "inconclusive"
            self.note = why

    def to_json(self):
        return {
            "case": self.case,
            "status": self.status,
            "checks": self.checks,
            "violations": self.violations,
            "ratios": self.ratios,
            "obs": self.obs,
            "nontrivial": bool(self.nontrivial),
            "note": self.note,
        }


# ---------------------------------------------------------------- numerics

def haar_so3(rng):
    """Haar-distributed proper rotation (QR of a Gaussian matrix)."""
    A = rng.standard_normal((3, 3))
    Q, R = onp.linalg.qr(A)
    Q = Q * onp.sign(onp.diag(R))
    if onp.linalg.det(Q) < 0:
        Q[:, 0] = -Q[:, 0]
    return Q


def inplane_rot(theta):
    c, s = math.cos(theta), math.sin(theta)
    return onp.array([[c, -s, 0.0], [s, c, 0.0], [0.0, 0.0, 1.0]])


def haar_on(rng, n):
    A = rng.standard_normal((n, n))
    Q, R = onp.linalg.qr(A)
    return Q * onp.sign(onp.diag(R))


def nextafter_k(x, k):
    """x moved by k ulps (k may be negative)."""
    x = float(x)
    d = math.inf if k > 0 else -math.inf
    for _ in range(abs(int(k))):
        x = float(onp.nextafter(x, d))
    return x


def loguniform(rng, lo, hi, size=None):
    return onp.exp(rng.uniform(math.log(lo), math.log(hi), size))


def env_seed():
    try:
        return int(os.environ.get("VERIF_SEED", "0"))
    except ValueError:
        return 0


def raised_in_library(exc):
    """True if the traceback of exc passes through the optimism package under test."""
    import traceback
    repo = os.path.realpath(os.environ.get("VERIF_REPO", "/repo"))
    for fs in traceback.extract_tb(exc.__traceback__):
        if os.path.realpath(fs.filename).startswith(os.path.join(repo, "optimism")):
            return True
    return False


def library_frames(exc, n=4):
    import traceback
    repo = os.path.realpath(os.environ.get("VERIF_REPO", "/repo"))
    out = []
    for fs in traceback.extract_tb(exc.__traceback__):
        fn = os.path.realpath(fs.filename)
        if fn.startswith(repo):
            out.append("%s:%d %s" % (fn[len(repo) + 1:], fs.lineno, fs.name))
    return out[-n:]
