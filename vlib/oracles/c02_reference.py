"""C02 — dumb numpy reference pieces (no jax, no optimism code; only arrays handed in).

* linear_elastic_reference: dense stiffness (and consistent mass) of small-strain isotropic elasticity assembled with
  plain loops from the function-space tables (shape values, shape gradients, quadrature volumes).  Third, independent
  route next to the library's element Hessians and the global autodiff Hessian; anchors the 2-D kinematic option
  (plane strain: eps_33 = 0; axisymmetric: eps_33 = u_r / r).
* deformation_measures: min det F, min hoop stretch over all quadrature points (hypothesis check: elements not inverted).
* projected_J: the volume-averaged J of the pressure-projection option, replicated in numpy.
"""
import numpy as onp


def isotropic_tensor(E, nu):
    mu = 0.5 * E / (1.0 + nu)
    kappa = E / 3.0 / (1.0 - 2.0 * nu)
    lam = kappa - 2.0 * mu / 3.0
    d = onp.eye(3)
    C = lam * onp.einsum("ij,kl->ijkl", d, d) + mu * (onp.einsum("ik,jl->ijkl", d, d) + onp.einsum("il,jk->ijkl", d, d))
    return C


def linear_elastic_reference(coords, conns, shapes, shapeGrads, vols, E, nu, axisym, density=None):
    """Returns (K, M) dense over all 2*nNodes dofs (node-major: dof = 2*node + component). M is None if density is None."""
    coords = onp.asarray(coords, dtype=float)
    conns = onp.asarray(conns, dtype=int)
    shapes = onp.asarray(shapes, dtype=float)
    shapeGrads = onp.asarray(shapeGrads, dtype=float)
    vols = onp.asarray(vols, dtype=float)
    C = isotropic_tensor(E, nu)
    nN = coords.shape[0]
    nE, nen = conns.shape
    nq = vols.shape[1]
    K = onp.zeros((2 * nN, 2 * nN))
    M = onp.zeros((2 * nN, 2 * nN)) if density is not None else None
    for e in range(nE):
        nodes = conns[e]
        dofs = (2 * nodes[:, None] + onp.arange(2)[None, :]).ravel()
        Xe = coords[nodes]
        ke = onp.zeros((2 * nen, 2 * nen))
        me = onp.zeros((2 * nen, 2 * nen))
        for q in range(nq):
            N = shapes[e, q]
            dN = shapeGrads[e, q]           # (nen, 2)
            D = onp.zeros((2 * nen, 3, 3))  # d(gradU_3D) / d(u_ai)
            for a in range(nen):
                for i in range(2):
                    D[2 * a + i, i, :2] = dN[a]
                if axisym:
                    r = float(N @ Xe[:, 0])
                    D[2 * a + 0, 2, 2] = N[a] / r
            CD = onp.einsum("ijkl,bkl->bij", C, D)
            ke += vols[e, q] * onp.einsum("aij,bij->ab", D, CD)
            if M is not None:
                NN = onp.outer(N, N)
                for i in range(2):
                    me[i::2, i::2] += vols[e, q] * density * NN
        K[onp.ix_(dofs, dofs)] += ke
        if M is not None:
            M[onp.ix_(dofs, dofs)] += me
    return K, M


def deformation_measures(U, coords, conns, shapes, shapeGrads, axisym):
    """min/max det(I + grad u) (in-plane) and min hoop stretch over all quadrature points; also the in-plane Js."""
    U = onp.asarray(U, dtype=float)
    conns = onp.asarray(conns, dtype=int)
    Ue = U[conns]                                           # (nE, nen, 2)
    G = onp.einsum("eai,eqaj->eqij", Ue, onp.asarray(shapeGrads, dtype=float))
    F = G + onp.eye(2)
    J = F[..., 0, 0] * F[..., 1, 1] - F[..., 0, 1] * F[..., 1, 0]
    out = {"J": J, "minJ": float(J.min()), "maxJ": float(J.max()), "max_grad": float(onp.abs(G).max())}
    if axisym:
        Xe = onp.asarray(coords, dtype=float)[conns]
        r = onp.einsum("eqa,ea->eq", onp.asarray(shapes, dtype=float), Xe[..., 0])
        ur = onp.einsum("eqa,ea->eq", onp.asarray(shapes, dtype=float), Ue[..., 0])
        hoop = 1.0 + ur / r
        out["min_hoop"] = float(hoop.min())
        out["min_r"] = float(r.min())
        out["minJ3"] = float((J * hoop).min())
    return out


def projected_J(J, vols, pShapes):
    """numpy replica of the volume-average projection of J onto the pressure space, per element: returns JBar (nE,nq)."""
    J = onp.asarray(J, dtype=float)
    vols = onp.asarray(vols, dtype=float)
    P = onp.asarray(pShapes, dtype=float)
    out = onp.zeros_like(J)
    for e in range(J.shape[0]):
        rhs = (vols[e] * J[e]) @ P
        Mm = P.T @ onp.diag(vols[e]) @ P
        out[e] = P @ onp.linalg.solve(Mm, rhs)
    return out


def min_relative_eigen_gap(U, coords, conns, shapes, shapeGrads, vols, axisym, pShapes=None, inelastic=None):
    """Smallest relative gap between the eigenvalues of Ce = Fe^T Fe, Fe = F Fi^-1, over all quadrature points and all
    inelastic distortions Fi handed in (list of (nE,nq,3,3) arrays; None -> identity).  F is the 3-D deformation gradient
    the chosen 2-D option produces (plane strain: F33 = 1; axisymmetric: F33 = 1 + u_r/r; pressure projection: in-plane
    part scaled by sqrt(JBar/J)).  Used only to keep random draws away from the thin set (nearly) repeated stretches, where
    the eigenvector-based tensor logarithm is subject to the known findings D8/D12 of C12/C10."""
    U = onp.asarray(U, dtype=float)
    conns = onp.asarray(conns, dtype=int)
    Ue = U[conns]
    G = onp.einsum("eai,eqaj->eqij", Ue, onp.asarray(shapeGrads, dtype=float))
    F2 = G + onp.eye(2)
    if pShapes is not None:
        J = F2[..., 0, 0] * F2[..., 1, 1] - F2[..., 0, 1] * F2[..., 1, 0]
        JB = projected_J(J, vols, pShapes)
        F2 = F2 * onp.sqrt(JB / J)[..., None, None]
    F3 = onp.zeros(F2.shape[:2] + (3, 3))
    F3[..., :2, :2] = F2
    F3[..., 2, 2] = 1.0
    if axisym:
        Xe = onp.asarray(coords, dtype=float)[conns]
        r = onp.einsum("eqa,ea->eq", onp.asarray(shapes, dtype=float), Xe[..., 0])
        ur = onp.einsum("eqa,ea->eq", onp.asarray(shapes, dtype=float), Ue[..., 0])
        F3[..., 2, 2] = 1.0 + ur / r
    worst = onp.inf
    for Fi in (inelastic or [None]):
        Fe = F3 if Fi is None else F3 @ onp.linalg.inv(onp.asarray(Fi, dtype=float))
        Ce = onp.swapaxes(Fe, -1, -2) @ Fe
        ev = onp.linalg.eigvalsh(Ce)
        gap = onp.min(onp.diff(ev, axis=-1), axis=-1) / ev[..., -1]
        worst = min(worst, float(gap.min()))
    return worst
