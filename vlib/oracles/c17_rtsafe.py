"""C17 oracle side: function families with closed-form derivatives (numpy) and a plain transcription of the
Numerical Recipes `rtsafe` routine (Press et al., 2nd ed., sec. 9.4) used as a *reference model* to classify
budget exhaustion.  Nothing here imports optimism or jax.

Every family is f(x; th) with th = [a, c, k, s] (unused entries are ignored).  `f` is written once against an
array module `xp` (numpy for the oracle, jax.numpy for the code under test); the partial derivatives f_x and
f_th are written by hand in numpy and are what the implicit-function-theorem oracle uses.
"""
import math

import numpy as onp

NTH = 4


def _spow(xp, u, p):
    """sign(u)*|u|**p, odd extension of the power law."""
    return xp.sign(u) * xp.abs(u) ** p


# name -> (f(xp, x, th), fx(x, th), fth(x, th) -> length-4 array, multiplicity of the root at c (0 = no closed-form root))
def _affine(xp, x, th):
    return th[0] * (x - th[1])


def _affine_x(x, th):
    return th[0]


def _affine_th(x, th):
    return onp.array([x - th[1], -th[0], 0.0, 0.0])


def _exp(xp, x, th):
    return th[0] * (xp.exp(th[2] * (x - th[1])) - 1.0)


def _exp_x(x, th):
    return th[0] * th[2] * math.exp(th[2] * (x - th[1]))


def _exp_th(x, th):
    e = math.exp(th[2] * (x - th[1]))
    return onp.array([e - 1.0, -th[0] * th[2] * e, th[0] * (x - th[1]) * e, 0.0])


def _cubic(xp, x, th):
    u = x - th[1]
    return th[0] * (u * u * u + th[2] * u)


def _cubic_x(x, th):
    u = x - th[1]
    return th[0] * (3.0 * u * u + th[2])


def _cubic_th(x, th):
    u = x - th[1]
    return onp.array([u * u * u + th[2] * u, -th[0] * (3.0 * u * u + th[2]), th[0] * u, 0.0])


def _poly3(xp, x, th):
    # three simple roots: c, c+s, c-k*s   (k>0, s>0)
    u = x - th[1]
    return th[0] * u * (u - th[3]) * (u + th[2] * th[3])


def _poly3_x(x, th):
    u = x - th[1]
    p, q = u - th[3], u + th[2] * th[3]
    return th[0] * (p * q + u * q + u * p)


def _poly3_th(x, th):
    u = x - th[1]
    p, q = u - th[3], u + th[2] * th[3]
    return onp.array([u * p * q, -_poly3_x(x, th), th[0] * u * p * th[3], th[0] * u * (-q + p * th[2])])


def _sin(xp, x, th):
    return th[0] * xp.sin(th[2] * (x - th[1]))


def _sin_x(x, th):
    return th[0] * th[2] * math.cos(th[2] * (x - th[1]))


def _sin_th(x, th):
    u = x - th[1]
    return onp.array([math.sin(th[2] * u), -th[0] * th[2] * math.cos(th[2] * u), th[0] * u * math.cos(th[2] * u), 0.0])


def _tanh(xp, x, th):
    return th[0] * xp.tanh(th[2] * (x - th[1]))


def _tanh_x(x, th):
    t = math.tanh(th[2] * (x - th[1]))
    return th[0] * th[2] * (1.0 - t * t)


def _tanh_th(x, th):
    u = x - th[1]
    t = math.tanh(th[2] * u)
    return onp.array([t, -th[0] * th[2] * (1.0 - t * t), th[0] * u * (1.0 - t * t), 0.0])


def _odd3(xp, x, th):
    u = x - th[1]
    return th[0] * u * u * u


def _odd3_x(x, th):
    u = x - th[1]
    return 3.0 * th[0] * u * u


def _odd3_th(x, th):
    u = x - th[1]
    return onp.array([u ** 3, -3.0 * th[0] * u * u, 0.0, 0.0])


def _odd5(xp, x, th):
    u = x - th[1]
    u2 = u * u
    return th[0] * u2 * u2 * u


def _odd5_x(x, th):
    u = x - th[1]
    return 5.0 * th[0] * u ** 4


def _odd5_th(x, th):
    u = x - th[1]
    return onp.array([u ** 5, -5.0 * th[0] * u ** 4, 0.0, 0.0])


def _rate(xp, x, th):
    # J2 rate-sensitivity shape on x > c:  a*( k - (x-c) - s*(x-c)**(1/4) ); infinitely steep at x = c (kept outside
    # the bracket by the generator), root strictly inside (c, c+k)
    u = x - th[1]
    return th[0] * (th[2] - u - th[3] * xp.abs(u) ** 0.25)


def _rate_x(x, th):
    u = abs(x - th[1])
    return th[0] * (-1.0 - 0.25 * th[3] * u ** (-0.75))


def _rate_th(x, th):
    u = abs(x - th[1])
    return onp.array([th[2] - u - th[3] * u ** 0.25, -_rate_x(x, th), th[0], -th[0] * u ** 0.25])


def _cbrt(xp, x, th):
    # steep power law through the root: a*( sign(u)|u|^(1/3) + k*u ), slope -> infinity at the root
    u = x - th[1]
    return th[0] * (_spow(xp, u, 1.0 / 3.0) + th[2] * u)


def _cbrt_x(x, th):
    u = abs(x - th[1])
    return th[0] * (u ** (-2.0 / 3.0) / 3.0 + th[2]) if u > 0 else math.inf


def _cbrt_th(x, th):
    u = x - th[1]
    return onp.array([_spow(onp, u, 1.0 / 3.0) + th[2] * u, -_cbrt_x(x, th), th[0] * u, 0.0])


FAMILIES = {
    # name: (f, fx, fth, multiplicity of the root at c, continuously differentiable on the bracket)
    "affine": (_affine, _affine_x, _affine_th, 1, True),
    "exp": (_exp, _exp_x, _exp_th, 1, True),
    "cubic": (_cubic, _cubic_x, _cubic_th, 1, True),
    "poly3": (_poly3, _poly3_x, _poly3_th, 1, True),
    "sin": (_sin, _sin_x, _sin_th, 1, True),
    "tanh": (_tanh, _tanh_x, _tanh_th, 1, True),
    "odd3": (_odd3, _odd3_x, _odd3_th, 3, True),
    "odd5": (_odd5, _odd5_x, _odd5_th, 5, True),
    "rate": (_rate, _rate_x, _rate_th, 0, True),
    "cbrt": (_cbrt, _cbrt_x, _cbrt_th, 1, False),
}


def f_np(fam, x, th):
    with onp.errstate(all="ignore"):
        return float(FAMILIES[fam][0](onp, onp.float64(x), onp.asarray(th, dtype=float)))


def fx_np(fam, x, th):
    try:
        with onp.errstate(all="ignore"):
            return float(FAMILIES[fam][1](float(x), [float(t) for t in th]))
    except (OverflowError, ZeroDivisionError):
        return math.nan


def fth_np(fam, x, th):
    try:
        with onp.errstate(all="ignore"):
            return onp.asarray(FAMILIES[fam][2](float(x), [float(t) for t in th]), dtype=float)
    except (OverflowError, ZeroDivisionError):
        return onp.full(NTH, math.nan)


def rtsafe_reference(fam, th, x0, lo, hi, x_tol, r_tol, max_iters):
    """Numerical Recipes rtsafe, started from the clipped guess instead of the bracket midpoint and with the
    additional residual criterion |f| < r_tol (both as documented for find_root).  Returns a dict:
      status: 'nobracket' | 'endpoint' | 'converged' | 'exhausted'
      x, iters, hit_singular=True when an iterate had f == 0 and f' == 0 (0/0 Newton step), hit_nonfinite_slope,
      exit ('x_tol' | 'r_tol' | 'stagnation'), last_step ('newton' | 'bisection'), bisections, newtons.
    """
    def fd(x):
        return f_np(fam, x, th), fx_np(fam, x, th)

    x1, x2 = float(lo), float(hi)
    fl, _ = fd(x1)
    fh, _ = fd(x2)
    out = {"status": None, "x": math.nan, "iters": 0, "hit_singular": False, "hit_nonfinite_slope": False,
           "bisections": 0, "newtons": 0, "exit": None, "last_step": None, "singular_at_iter": None}
    if fl == 0.0 or fh == 0.0:
        out.update(status="endpoint", x=(x2 if fh == 0.0 else x1))
        return out
    if not ((fl < 0.0 and fh > 0.0) or (fl > 0.0 and fh < 0.0)):   # by signs: products of tiny values underflow
        out.update(status="nobracket")
        return out
    if fl < 0.0:
        xl, xh = x1, x2
    else:
        xh, xl = x1, x2
    rts = min(max(float(x0), min(x1, x2)), max(x1, x2))
    dxold = abs(x2 - x1)
    dx = dxold
    f, df = fd(rts)
    for j in range(int(max_iters)):
        if f == 0.0 and df == 0.0 and not out["hit_singular"]:
            out["hit_singular"] = True
            out["singular_at_iter"] = j
        if not math.isfinite(df):
            out["hit_nonfinite_slope"] = True
        ta, tb = (rts - xh) * df - f, (rts - xl) * df - f
        out_of_range = (ta > 0.0 and tb > 0.0) or (ta < 0.0 and tb < 0.0)
        slow = abs(2.0 * f) > abs(dxold * df)
        if out_of_range or slow:
            dxold = dx
            dx = 0.5 * (xh - xl)
            rts = xl + dx
            out["bisections"] += 1
            out["last_step"] = "bisection"
            if xl == rts:
                out.update(status="converged", x=rts, iters=j + 1, exit="stagnation")
                return out
        else:
            dxold = dx
            dx = f / df if df != 0.0 else math.nan
            temp = rts
            rts = rts - dx
            out["newtons"] += 1
            out["last_step"] = "newton"
            if temp == rts:
                out.update(status="converged", x=rts, iters=j + 1, exit="stagnation")
                return out
        f, df = fd(rts)
        if abs(dx) < x_tol or abs(f) < r_tol:
            out.update(status="converged", x=rts, iters=j + 1, exit=("x_tol" if abs(dx) < x_tol else "r_tol"))
            return out
        if f < 0.0:
            xl = rts
        else:
            xh = rts
    out.update(status="exhausted", iters=int(max_iters))
    return out


def budget_class(fam, th, x0, lo, hi, x_tol, r_tol, max_iters):
    """Run the reference with 0.5x, 1x and 2x the budget.  Returns (label, detail):
      'ref_converges_half'   reference converges within half the budget   -> implementation failure is a violation
      'ref_fails_double'     reference fails even with twice the budget    -> honest exhaustion = known finding D10
      'between'              neither                                        -> neutral
    """
    r2 = rtsafe_reference(fam, th, x0, lo, hi, x_tol, r_tol, 2 * int(max_iters))
    detail = {"ref_iters_2x": r2["iters"], "ref_status_2x": r2["status"],
              "hit_singular": bool(r2["hit_singular"] and r2["singular_at_iter"] < int(max_iters))}
    if float(lo) > float(hi):
        # bracket given as [upper, lower]: where the search starts is not defined by the documentation (jnp.clip with
        # reversed bounds returns bracket[1]); the reference is run from that start too and the more lenient label wins
        rb = rtsafe_reference(fam, th, hi, lo, hi, x_tol, r_tol, 2 * int(max_iters))
        detail.update(ref_iters_2x_from_end=rb["iters"], ref_status_2x_from_end=rb["status"])
        # the start the implementation effectively uses; only a 0/0 within the implementation's own budget counts
        detail["hit_singular"] = bool(rb["hit_singular"] and rb["singular_at_iter"] < int(max_iters))
        if rb["status"] == "exhausted" or rb["iters"] > r2["iters"]:
            r2 = rb
    if r2["status"] == "exhausted":
        return "ref_fails_double", detail
    if r2["status"] == "converged" and r2["iters"] <= int(max_iters) // 2:
        return "ref_converges_half", detail
    return "between", detail


def ample_budget(lo, hi, x_tol):
    """2*log2(W/x_tol)+10: every second iteration at least halves the step (Newton steps are only accepted when
    |2f| <= |dxold*f'|), so a correct rtsafe must meet |dx| < x_tol within this many iterations."""
    W = abs(float(hi) - float(lo))
    return int(math.ceil(2.0 * math.log2(max(W / x_tol, 2.0)) + 10))
