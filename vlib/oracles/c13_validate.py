"""C13 reference model: a pure-numpy structural validator for optimism Mesh tuples.

Nothing in here calls into optimism.  The only library data that is *read* are the
attributes of the returned Mesh (coords, conns, parentElement tables, sets); every
table of the parent element is itself pinned against geometry before it is used
(vertex positions, nodes of face s lie on the edge from vertex s to vertex s+1 in
order, interior nodes strictly inside), so a shifted table cannot vouch for itself.
"""
import numpy as onp


def A(x):
    return onp.asarray(x)


def is_int_array(x):
    return onp.issubdtype(A(x).dtype, onp.integer)


def edge_dict(conns3):
    """Independent edge table: sorted vertex pair -> [(elem, localSide, a, b)] with a->b the traversal in elem."""
    d = {}
    for e, row in enumerate(A(conns3)):
        for k in range(3):
            a, b = int(row[k]), int(row[(k + 1) % 3])
            d.setdefault((min(a, b), max(a, b)), []).append((e, k, a, b))
    return d


def shoelace(coords, tri):
    c = A(coords)
    t = A(tri)
    a, b, d = c[t[:, 0]], c[t[:, 1]], c[t[:, 2]]
    return 0.5 * ((b[:, 0] - a[:, 0]) * (d[:, 1] - a[:, 1]) - (d[:, 0] - a[:, 0]) * (b[:, 1] - a[:, 1]))


def expected_num_ref_nodes(degree, bubble):
    if not bubble:
        return (degree + 1) * (degree + 2) // 2
    return 3 * degree + degree * (degree - 1) // 2     # boundary nodes of P_p + interior nodes of P_{p+1}


def check_parent_element(res, pe, pe1d, tag):
    """Pin the reference-element tables against geometry.  Returns dict(ref, V, F, I, degree) or None."""
    ref = A(pe.coordinates).astype(float)
    V = A(pe.vertexNodes).astype(int)
    F = A(pe.faceNodes).astype(int)
    I = A(pe.interiorNodes).astype(int)
    p = int(pe.degree)
    ok = True
    ok &= res.expect("ref.shapes", ref.ndim == 2 and ref.shape[1] == 2 and V.shape == (3,) and F.shape == (3, p + 1),
                     {"tag": tag, "ref": list(ref.shape), "V": list(V.shape), "F": list(F.shape)})
    if not ok:
        return None
    n = ref.shape[0]
    tol = 1e-13
    ok &= res.expect("ref.index_range", V.min() >= 0 and V.max() < n and F.min() >= 0 and F.max() < n
                     and (I.size == 0 or (I.min() >= 0 and I.max() < n)), {"tag": tag})
    if not ok:
        return None
    # every reference node is a face node or an interior node, never both, and no node is listed twice
    fset = set(F.ravel().tolist())
    iset = set(I.tolist())
    ok &= res.expect("ref.node_partition", fset | iset == set(range(n)) and not (fset & iset) and len(iset) == I.size
                     and len(fset) == 3 * p, {"tag": tag, "n": n, "nface": len(fset), "nint": len(iset)})
    # the three vertices span a non-degenerate CCW-or-CW reference triangle; barycentric coordinates w.r.t. them
    R = ref[V]
    T = onp.column_stack((R[0] - R[2], R[1] - R[2]))
    det = float(onp.linalg.det(T))
    ok &= res.expect("ref.vertices", abs(det) > 0.1, {"tag": tag, "det": det})
    if not ok:
        return None
    lam01 = onp.linalg.solve(T, (ref - R[2]).T).T
    lam = onp.column_stack((lam01, 1.0 - lam01.sum(axis=1)))        # (n, 3) barycentric coordinates
    ok &= res.expect("ref.vertex_bary", onp.abs(lam[V] - onp.eye(3)).max() <= tol, {"tag": tag})
    ok &= res.expect("ref.distinct_nodes", _min_pair_dist(ref) > 1e-6, {"tag": tag})
    # face s runs from vertex s to vertex s+1: third barycentric coordinate vanishes, parameter strictly increasing 0..1
    ts = []
    for s in range(3):
        l = lam[F[s]]
        t = l[:, (s + 1) % 3]
        ts.append(t)
        ok &= res.expect("ref.face_on_edge", onp.abs(l[:, (s + 2) % 3]).max() <= tol and abs(t[0]) <= tol and abs(t[-1] - 1) <= tol
                         and onp.all(onp.diff(t) > 1e-6) and F[s][0] == V[s] and F[s][-1] == V[(s + 1) % 3],
                         {"tag": tag, "face": s, "t": t.tolist()})
    # same node distribution on the three faces, symmetric about the mid point (needed for neighbours to match)
    ok &= res.expect("ref.face_distribution", max(onp.abs(ts[0] - ts[1]).max(), onp.abs(ts[0] - ts[2]).max(),
                                                  onp.abs(ts[0] + ts[0][::-1] - 1.0).max()) <= tol, {"tag": tag})
    if pe1d is not None:
        x1 = A(pe1d.coordinates).astype(float).ravel()
        ok &= res.expect("ref.line_element_matches_faces", x1.shape == ts[0].shape and onp.abs(x1 - ts[0]).max() <= tol
                         and A(pe1d.vertexNodes).tolist() == [0, p] and A(pe1d.interiorNodes).tolist() == list(range(1, p)),
                         {"tag": tag})
    if I.size:
        ok &= res.expect("ref.interior_inside", lam[I].min() > 1e-6, {"tag": tag})
    return {"ref": ref, "V": V, "F": F, "I": I, "degree": p, "lam": lam, "ok": bool(ok)}


def _min_pair_dist(pts):
    from scipy.spatial import cKDTree
    pts = A(pts)
    if len(pts) < 2:
        return onp.inf
    d, _ = cKDTree(pts).query(pts, k=2)
    return float(d[:, 1].min())


def validate_mesh(res, mesh, tag, expect_degree=None, expect_bubble=None, blocks_required=True):
    """All structural clauses of C13 that can be decided from the Mesh alone.  Returns an info dict (or None)."""
    det = {"tag": tag}
    coords = A(mesh.coords)
    conns = A(mesh.conns)
    ok = res.expect("valid.array_shapes", coords.ndim == 2 and coords.shape[1] == 2 and conns.ndim == 2 and conns.shape[0] > 0
                    and is_int_array(conns) and onp.issubdtype(coords.dtype, onp.floating) and bool(onp.all(onp.isfinite(coords))),
                    {"tag": tag, "coords": list(coords.shape), "conns": list(conns.shape), "dtype": str(conns.dtype)})
    if not ok:
        return None
    coords = coords.astype(float)
    conns = conns.astype(int)
    nN, nE = coords.shape[0], conns.shape[0]
    pe = mesh.parentElement
    pinfo = check_parent_element(res, pe, mesh.parentElement1d, tag)
    if pinfo is None:
        return None
    p = pinfo["degree"]
    if expect_degree is not None:
        res.expect("valid.element_degree", p == expect_degree, {"tag": tag, "degree": p, "expected": expect_degree})
    bubble = bool(expect_bubble)
    if expect_bubble is not None:
        res.expect("valid.reference_node_count", pinfo["ref"].shape[0] == expected_num_ref_nodes(p, bubble),
                   {"tag": tag, "n": int(pinfo["ref"].shape[0]), "expected": expected_num_ref_nodes(p, bubble)})
    ok = res.expect("valid.nodes_per_element", conns.shape[1] == pinfo["ref"].shape[0],
                    {"tag": tag, "conns": list(conns.shape), "nref": int(pinfo["ref"].shape[0])})
    if not ok:
        return None
    V, F, I = pinfo["V"], pinfo["F"], pinfo["I"]

    ok = res.expect("valid.conn_range", conns.min() >= 0 and conns.max() < nN, {"tag": tag, "min": int(conns.min()), "max": int(conns.max()), "nNodes": nN})
    if not ok:
        return None
    used = onp.bincount(conns.ravel(), minlength=nN)
    res.expect("valid.every_node_used", bool(onp.all(used > 0)), {"tag": tag, "unused": onp.where(used == 0)[0][:10].tolist(), "nNodes": nN})
    srt = onp.sort(conns, axis=1)
    res.expect("valid.element_nodes_distinct", bool(onp.all(srt[:, 1:] != srt[:, :-1])), det)

    tri = conns[:, V]
    area = shoelace(coords, tri)
    diam = float(onp.linalg.norm(coords.max(axis=0) - coords.min(axis=0)))
    scale = diam + float(onp.abs(coords).max())
    res.expect("valid.ccw_positive_area", bool(onp.all(area > 1e-14 * diam * diam)),
               {"tag": tag, "min_area": float(area.min()), "n_bad": int((area <= 1e-14 * diam * diam).sum()), "first_bad": int(onp.argmin(area))})

    sno = A(mesh.simplexNodesOrdinals)
    ok_s = sno.ndim == 1 and is_int_array(sno) and sno.size > 0 and sno.min() >= 0 and sno.max() < nN
    res.expect("valid.simplex_ordinals", bool(ok_s) and set(sno.tolist()) == set(tri.ravel().tolist()) and len(set(sno.tolist())) == sno.size,
               {"tag": tag, "n": int(sno.size), "nvertex": len(set(tri.ravel().tolist()))})

    # --- sets index existing entities
    blocks = mesh.blocks
    if blocks is None:
        res.count("blocks_none")
        if blocks_required:
            res.expect("valid.blocks_present", False, det)
    else:
        for name, b in blocks.items():
            b = A(b)
            res.expect("valid.block_indices", isinstance(name, str) and b.ndim == 1 and (b.size == 0 or (is_int_array(b) and b.min() >= 0 and b.max() < nE))
                       and len(set(b.tolist())) == b.size, {"tag": tag, "block": str(name), "size": int(b.size), "nElems": nE})
    if mesh.nodeSets is not None:
        for name, s in mesh.nodeSets.items():
            s = A(s)
            res.expect("valid.nodeset_indices", isinstance(name, str) and (s.size == 0 or (s.ndim == 1 and is_int_array(s) and s.min() >= 0 and s.max() < nN)),
                       {"tag": tag, "set": str(name), "size": int(s.size), "dtype": str(s.dtype), "nNodes": nN,
                        "min": float(s.min()) if s.size else None, "max": float(s.max()) if s.size else None})
    if mesh.sideSets is not None:
        for name, s in mesh.sideSets.items():
            s = A(s)
            res.expect("valid.sideset_indices", isinstance(name, str) and (s.size == 0 or (s.ndim == 2 and s.shape[1] == 2 and is_int_array(s)
                       and s[:, 0].min() >= 0 and s[:, 0].max() < nE and s[:, 1].min() >= 0 and s[:, 1].max() <= 2)),
                       {"tag": tag, "set": str(name), "shape": list(s.shape), "dtype": str(s.dtype), "nElems": nE,
                        "min": s.min(axis=0).tolist() if s.size and s.ndim == 2 else None, "max": s.max(axis=0).tolist() if s.size and s.ndim == 2 else None})

    # --- geometry of all element nodes: affine image of the reference nodes (via barycentric coordinates)
    lam = pinfo["lam"]                                       # (nRef, 3)
    Xv = coords[tri]                                         # (nE, 3, 2)
    Ximg = onp.einsum("nk,ekd->end", lam, Xv)
    err = float(onp.abs(Ximg - coords[conns]).max())
    res.bound("valid.affine_image", err, 1e-13 * scale, {"tag": tag, "degree": p, "elem": int(onp.argmax(onp.abs(Ximg - coords[conns]).max(axis=(1, 2))))})

    # --- conformity: independent edge dict on the vertex triangles
    ed = edge_dict(tri)
    nonmanifold = [k for k, v in ed.items() if len(v) > 2]
    res.expect("valid.manifold_edges", not nonmanifold, {"tag": tag, "edges": nonmanifold[:5]})
    n_int = n_bnd = 0
    bad_share = []
    for key, owners in ed.items():
        if len(owners) == 2:
            (e1, s1, a1, b1), (e2, s2, a2, b2) = owners
            n_int += 1
            if (a1, b1) != (b2, a2):
                bad_share.append(("orientation", key))
                continue
            if not onp.array_equal(conns[e1, F[s1]], conns[e2, F[s2]][::-1]):
                bad_share.append(("nodes", key, conns[e1, F[s1]].tolist(), conns[e2, F[s2]].tolist()))
        elif len(owners) == 1:
            n_bnd += 1
    res.expect("valid.edge_nodes_shared_in_order", not bad_share, {"tag": tag, "n_bad": len(bad_share), "first": bad_share[:2], "degree": p})
    res.count("shared_edges_checked", n_int)
    res.count("boundary_edges_seen", n_bnd)
    # use counts: face-interior nodes belong to exactly the owners of their edge, element-interior nodes to one element
    if p > 1:
        exp_use = onp.zeros(nN, dtype=int)
        fixed = onp.zeros(nN, dtype=bool)
        for key, owners in ed.items():
            e1, s1 = owners[0][0], owners[0][1]
            mids = conns[e1, F[s1][1:-1]]
            exp_use[mids] = len(owners)
            fixed[mids] = True
        if I.size:
            inn = conns[:, I].ravel()
            exp_use[inn] = 1
            fixed[inn] = True
        vmask = onp.zeros(nN, dtype=bool)
        vmask[tri.ravel()] = True
        res.expect("valid.node_roles_disjoint", not bool(onp.any(fixed & vmask)), det)
        res.expect("valid.node_use_counts", bool(onp.all(used[fixed] == exp_use[fixed])) and bool(onp.all(fixed | vmask)),
                   {"tag": tag, "n_bad": int((used[fixed] != exp_use[fixed]).sum()), "unclassified": int((~(fixed | vmask)).sum())})
    nVert = len(set(tri.ravel().tolist()))
    res.expect("valid.node_count", nN == nVert + len(ed) * (p - 1) + nE * I.size,
               {"tag": tag, "nNodes": nN, "expected": nVert + len(ed) * (p - 1) + nE * int(I.size), "degree": p})
    res.bound("valid.no_duplicate_nodes", 1e-9 * diam, _min_pair_dist(coords), {"tag": tag})
    res.count("meshes_validated")
    res.count("elements_validated", nE)
    return {"coords": coords, "conns": conns, "tri": tri, "edges": ed, "degree": p, "V": V, "F": F, "I": I, "area": area,
            "n_interior_edges": n_int, "n_boundary_edges": n_bnd, "scale": scale, "diam": diam}


def check_edge_table(res, coords, conns3, edgeConns, edges, tag):
    """Mesh.create_edges contract: each edge once; (leftT,leftP)/(rightT,rightP) are the true owners; the listed direction is the
    left element's own (CCW) traversal, so the body is on the left of every boundary edge."""
    conns3 = A(conns3).astype(int)
    coords = A(coords).astype(float)
    ec = A(edgeConns)
    et = A(edges)
    ed = edge_dict(conns3)
    ok = res.expect("edges.shapes", ec.ndim == 2 and ec.shape[1] == 2 and et.shape == (ec.shape[0], 4) and is_int_array(ec) and is_int_array(et),
                    {"tag": tag, "edgeConns": list(ec.shape), "edges": list(et.shape)})
    if not ok:
        return
    keys = [(int(min(a, b)), int(max(a, b))) for a, b in ec]
    res.expect("edges.each_once", len(keys) == len(ed) and len(set(keys)) == len(keys) and set(keys) == set(ed.keys()),
               {"tag": tag, "listed": len(keys), "distinct": len(set(keys)), "expected": len(ed)})
    bad = []
    nb = 0
    area = shoelace(coords, conns3)
    for row, (a, b), key in zip(et, ec, keys):
        owners = ed.get(key)
        if owners is None:
            bad.append(("unknown edge", key))
            continue
        lt, lp, rt, rp = (int(v) for v in row)
        own = {(o[0], o[1]): (o[2], o[3]) for o in owners}
        if (lt, lp) not in own:
            bad.append(("left not an owner", key, [lt, lp], sorted(own)))
            continue
        if own[(lt, lp)] != (int(a), int(b)):
            bad.append(("direction is not the left element's traversal", key, [int(a), int(b)], list(own[(lt, lp)])))
            continue
        # geometric statement of 'left': the remaining vertex of leftT lies to the left of a->b
        c = int(conns3[lt, (lp + 2) % 3])
        pa, pb, pc = coords[int(a)], coords[int(b)], coords[c]
        cross = (pb[0] - pa[0]) * (pc[1] - pa[1]) - (pb[1] - pa[1]) * (pc[0] - pa[0])
        if not cross > 0:
            bad.append(("left element is not on the left", key))
            continue
        if len(owners) == 1:
            nb += 1
            if (rt, rp) != (-1, -1):
                bad.append(("boundary edge with right element", key, [rt, rp]))
        else:
            other = [k for k in own if k != (lt, lp)]
            if len(other) != 1 or (rt, rp) != other[0]:
                bad.append(("right not the other owner", key, [rt, rp], other))
                continue
            if own[(rt, rp)] != (int(b), int(a)):
                bad.append(("right element does not traverse the flipped edge", key))
                continue
            c = int(conns3[rt, (rp + 2) % 3])
            pc = coords[c]
            cross = (pb[0] - pa[0]) * (pc[1] - pa[1]) - (pb[1] - pa[1]) * (pc[0] - pa[0])
            if not cross < 0:
                bad.append(("right element is not on the right", key))
    res.expect("edges.adjacency_and_orientation", not bad, {"tag": tag, "n_bad": len(bad), "first": bad[:3]})
    res.count("edge_rows_checked", len(keys))
    res.count("boundary_edge_rows_checked", nb)
    res.count("edge_tables_checked")
    return area


def multiset(x):
    x = A(x)
    if x.size == 0:
        return []
    if x.ndim == 1:
        return sorted(int(v) for v in x)
    return sorted(tuple(int(v) for v in r) for r in x)
