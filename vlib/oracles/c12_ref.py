"""C12 -- dumb numpy reference models for symmetric 3x3 tensor functions (independent of optimism).

Everything is vectorised over a leading batch axis: A has shape [N,3,3].
"""
from fractions import Fraction

import numpy as onp

EPS = float(onp.finfo(float).eps)
TINY = 1e-300


def sym(A):
    return 0.5 * (A + onp.swapaxes(A, -1, -2))


def spectral_info(A):
    """numpy eigvalsh-based description of each input: (lam_ref [N,3], norm [N], relgap [N], axis_aligned [N]).

    relgap = smallest gap between adjacent eigenvalues / largest |eigenvalue| (0 for the zero tensor);
    axis_aligned = every off-diagonal entry is exactly zero."""
    A = onp.asarray(A, dtype=float)
    A = onp.where(onp.isfinite(A), A, 0.0)
    lam = onp.linalg.eigvalsh(sym(A))
    nrm = onp.abs(lam).max(axis=-1)
    gap = onp.diff(lam, axis=-1).min(axis=-1)
    relgap = onp.where(nrm > 0, gap / onp.where(nrm > 0, nrm, 1.0), 0.0)
    off = A.copy()
    off[..., [0, 1, 2], [0, 1, 2]] = 0.0
    axis = ~onp.any(off != 0.0, axis=(-1, -2))
    return lam, nrm, relgap, axis


def maxabs(X):
    return onp.abs(X).max(axis=(-1, -2))


def recompose(V, lam):
    return onp.einsum("nij,nj,nkj->nik", V, lam, V)


# ----------------------------------------------------------------------------------- scalar functions + divided differences

def _dd_sqrt(a, b):
    return 1.0 / (onp.sqrt(a) + onp.sqrt(b))


def _dd_exp(a, b):
    d = a - b
    safe = onp.where(d == 0, 1.0, d)
    return onp.where(d == 0, onp.exp(a), onp.exp(b) * onp.expm1(d) / safe)


def _dd_log(a, b):
    # (log a - log b)/(a - b) = log1p(x)/x / b with x = (a-b)/b; use the smaller |x| ordering for accuracy
    lo = onp.minimum(a, b)
    hi = onp.maximum(a, b)
    x = (lo - hi) / hi
    safe = onp.where(x == 0, 1.0, x)
    return onp.where(x == 0, 1.0 / hi, onp.log1p(x) / safe / hi)


def _dd_pow(m):
    def dd(a, b):
        lo = onp.minimum(a, b)
        hi = onp.maximum(a, b)
        x = (lo - hi) / hi                      # in (-1, 0]
        safe = onp.where(x == 0, 1.0, x)
        # (lo^m - hi^m)/(lo - hi) = hi^(m-1) * expm1(m log1p(x)) / x
        return onp.where(x == 0, m * hi ** (m - 1.0), hi ** (m - 1.0) * onp.expm1(m * onp.log1p(x)) / safe)
    return dd


SCALAR = {
    "sqrt": (onp.sqrt, lambda x: 0.5 / onp.sqrt(x), _dd_sqrt),
    "exp": (onp.exp, onp.exp, _dd_exp),
    "log": (onp.log, lambda x: 1.0 / x, _dd_log),
}


def scalar_triplet(name, m=None):
    if name == "pow":
        return (lambda x: x ** m), (lambda x: m * x ** (m - 1.0)), _dd_pow(m)
    return SCALAR[name]


def fun_ref(A, name, m=None):
    f, _, _ = scalar_triplet(name, m)
    lam, V = onp.linalg.eigh(sym(A))
    return recompose(V, f(lam))


def frechet_ref(A, E, name, m=None):
    """Daleckii-Krein: L_f(A, E) = V (Gamma o (V^T sym(E) V)) V^T with Gamma_ij the divided differences of f on the
    eigenvalues of A from numpy.linalg.eigh; f' on the diagonal and at exact coincidence."""
    f, df, dd = scalar_triplet(name, m)
    lam, V = onp.linalg.eigh(sym(A))
    W = onp.einsum("nji,njk,nkl->nil", V, sym(E), V)
    a = lam[:, :, None]
    b = lam[:, None, :]
    a, b = onp.broadcast_arrays(a, b)
    with onp.errstate(all="ignore"):
        G = dd(a, b)
        D = df(lam)
    idx = onp.arange(3)
    G[:, idx, idx] = D
    return onp.einsum("nij,njk,nlk->nil", V, G * W, V)


# ----------------------------------------------------------------------------------- exact helpers

def det3_fraction(M):
    return (M[0][0] * (M[1][1] * M[2][2] - M[1][2] * M[2][1]) - M[0][1] * (M[1][0] * M[2][2] - M[1][2] * M[2][0])
            + M[0][2] * (M[1][0] * M[2][1] - M[1][1] * M[2][0]))


def detpIm1_exact(A):
    """det(A + I) - 1 in exact rational arithmetic (float inputs are exact rationals); returned rounded to float,
    together with the magnitude  sum |terms|  of the expansion trace + I2 + det that bounds the float64 rounding error
    of any evaluation of that expansion."""
    F = [[Fraction(float(A[i, j])) for j in range(3)] for i in range(3)]
    M = [[F[i][j] + (1 if i == j else 0) for j in range(3)] for i in range(3)]
    exact = det3_fraction(M) - 1
    a = onp.abs(onp.asarray(A, dtype=float))
    tr = a[0, 0] + a[1, 1] + a[2, 2]
    i2 = 0.5 * (tr * tr + float((a * a.T).sum()))
    d3 = (a[0, 0] * a[1, 1] * a[2, 2] + a[0, 1] * a[1, 2] * a[2, 0] + a[0, 2] * a[1, 0] * a[2, 1]
          + a[0, 0] * a[1, 2] * a[2, 1] + a[0, 1] * a[1, 0] * a[2, 2] + a[0, 2] * a[1, 1] * a[2, 0])
    return float(exact), float(tr + i2 + d3)


def pivot_index(A):
    """Numpy replica of the routine's first stage, used only for *evidence* (which pivot row the input selects):
    scale by the infinity norm, deviator, largest eigenvalue by the trigonometric formula, squared row norms of
    (dev - eval2 I); returns 0/1/2 or -1 for the (near-)isotropic fallback."""
    A = onp.asarray(A, dtype=float)
    out = onp.full(A.shape[0], -1)
    for n in range(A.shape[0]):
        T = sym(A[n])
        cmax = onp.abs(T).sum(axis=1).max()
        if not (cmax > 0):
            continue
        T = T / cmax
        c1 = onp.trace(T) / 3.0
        Dv = T - c1 * onp.eye(3)
        c2 = (Dv[0, 0] * Dv[1, 1] + Dv[1, 1] * Dv[2, 2] + Dv[2, 2] * Dv[0, 0] - Dv[0, 1] ** 2 - Dv[1, 2] ** 2 - Dv[0, 2] ** 2)
        if not (c2 < -1e-30 * c1 * c1):
            continue
        e2 = onp.linalg.eigvalsh(Dv)[-1] if onp.linalg.det(Dv) >= 0 else onp.linalg.eigvalsh(Dv)[0]
        B = Dv - e2 * onp.eye(3)
        k = (B * B).sum(axis=1)
        if k[1] <= k[0] and k[2] <= k[0]:
            out[n] = 0
        elif k[2] <= k[1]:
            out[n] = 1
        else:
            out[n] = 2
    return out


def branch_surfaces(A):
    """Which exact-degeneracy surfaces of the eigen-routine's branch variables an input sits on.  A float64 numpy replica
    of the routine's first stage (scaling by the infinity norm, mean, deviator, c2, c3) with the same operation order, plus
    purely structural predicates; used for the input-class keys of open findings and for the coverage census."""
    A = onp.asarray(A, dtype=float)
    cmax = onp.abs(A).sum(axis=2).max(axis=1)
    inv = onp.where(cmax > 0, 1.0 / onp.where(cmax > 0, cmax, 1.0), 1.0)
    S = inv[:, None, None] * A
    cxx, cyy, czz = S[:, 0, 0].copy(), S[:, 1, 1].copy(), S[:, 2, 2].copy()
    cxy = 0.5 * (S[:, 0, 1] + S[:, 1, 0])
    cyz = 0.5 * (S[:, 1, 2] + S[:, 2, 1])
    czx = 0.5 * (S[:, 2, 0] + S[:, 0, 2])
    c1 = (cxx + cyy + czz) / 3.0
    cxx, cyy, czz = cxx - c1, cyy - c1, czz - c1
    c2 = cxx * cyy + cyy * czz + czz * cxx - cxy * cxy - cyz * cyz - czx * czx
    c3 = cxx * cyz * cyz + cyy * czx * czx - 2.0 * cxy * cyz * czx + czz * (cxy * cxy - cxx * cyy)
    off_nonzero = (cxy != 0) | (cyz != 0) | (czx != 0)
    dev_diag_zero = (cxx == 0) & (cyy == 0) & (czz == 0)
    tie01 = (cxx == cyy) & (onp.abs(czx) == onp.abs(cyz))
    tie12 = (cyy == czz) & (onp.abs(cxy) == onp.abs(czx))
    tie02 = (cxx == czz) & (onp.abs(cxy) == onp.abs(cyz))
    circ = (cxx == cyy) & (cyy == czz) & (onp.abs(cxy) == onp.abs(cyz)) & (onp.abs(cyz) == onp.abs(czx)) & (cxy != 0)
    # purely structural (exact in the INPUT): equal diagonal entries, i.e. a deviator with zero diagonal in exact arithmetic,
    # whose determinant 2 cxy cyz czx vanishes (at least one off-diagonal exactly zero) while it is not the zero matrix
    o01 = (A[:, 0, 1] + A[:, 1, 0]) != 0
    o12 = (A[:, 1, 2] + A[:, 2, 1]) != 0
    o02 = (A[:, 0, 2] + A[:, 2, 0]) != 0
    eqdiag = (A[:, 0, 0] == A[:, 1, 1]) & (A[:, 1, 1] == A[:, 2, 2])
    nz = o01.astype(int) + o12.astype(int) + o02.astype(int)
    shear_plus_iso = eqdiag & (nz >= 1) & (nz <= 2)
    return {"c3_zero": (c3 == 0) & (c2 < 0), "c2_zero": ~(c2 < (c1 * c1) * (-1.0e-30)), "trace_zero": (c1 == 0) & (cmax > 0),
            "dev_diag_zero": shear_plus_iso, "dev_diag_zero_in_float": dev_diag_zero & off_nonzero,
            "tie01": tie01, "tie12": tie12, "tie02": tie02,
            "pivot_tie": (tie01 | tie12 | tie02) & ((c2 < 0)), "circulant": circ,
            "n_zero_offdiag": (cxy == 0).astype(int) + (cyz == 0).astype(int) + (czx == 0).astype(int)}


def exact_det_dev_zero(A):
    """det(dev A) == 0 in exact rational arithmetic (float entries are exact rationals)."""
    out = onp.zeros(len(A), dtype=bool)
    for n, M in enumerate(onp.asarray(A, dtype=float)):
        F = [[(Fraction(float(M[i, j])) + Fraction(float(M[j, i]))) / 2 for j in range(3)] for i in range(3)]
        m = (F[0][0] + F[1][1] + F[2][2]) / 3
        D = [[F[i][j] - (m if i == j else 0) for j in range(3)] for i in range(3)]
        out[n] = det3_fraction(D) == 0
    return out


def deflation_surfaces(T):
    """Exact-tie surfaces of the routine's *second-stage* branch variables an input sits on, from an independent replica of
    the deflation step in longdouble numpy arithmetic (for every trigonometric root the routine can pick -- the extreme
    deviatoric root, or the middle one when det(dev) = 0 to rounding -- and every (tied-)largest pivot row):
      'b_zero'    the deflated 2x2 block [[xx, xy], [xy, yy]] has xx == yy to 64 eps while xy is not small: the Wilkinson
                  variable b = (xx - yy)/2 vanishes where the routine multiplies its square root by sign(b)      (D23)
      'pivot_tie' two pivot row norms k_i agree to 64 eps                                                         (D8b)
      'a_tie'     the two rows left after projecting out the pivot row have equal norms a0 == a1 to 64 eps        (D8b)
      'fac_tie'   |xx - eval0| == |yy - eval0| to 64 eps (the `rm2xx2 < rm2yy2` selector)                         (D8b)
    Returns a set of names."""
    out = set()
    T = onp.asarray(T, dtype=float)
    if not onp.all(onp.isfinite(T)):
        return out
    T = 0.5 * (T + T.T)
    nrm = onp.abs(T).sum(axis=1).max()
    if not nrm > 0:
        return out
    LD = onp.longdouble
    D = (T / nrm).astype(LD)
    D = D - (D[0, 0] + D[1, 1] + D[2, 2]) / 3 * onp.eye(3, dtype=LD)
    w = onp.linalg.eigvalsh(D.astype(float)).astype(LD)
    dn = float(onp.abs(D).max())
    if not dn > 0:
        return out
    detD = float(det3_fraction([[D[i][j] for j in range(3)] for i in range(3)]))
    cands = [w[2] if detD > 0 else w[0]]
    if abs(detD) <= 1e-13 * dn ** 3:
        cands = [w[1], w[0], w[2]]
    tol = 64 * EPS
    for e2 in cands:
        B = D - e2 * onp.eye(3, dtype=LD)
        kn = (B * B).sum(axis=1)
        if not kn.max() > 0:
            continue
        ks = sorted([float(x) for x in kn], reverse=True)
        if ks[0] - ks[1] <= tol * ks[0]:
            out.add("pivot_tie")
        for p in range(3):
            if kn[p] < kn.max() * (1 - 1e-12):
                continue
            k = B[p]
            rest = [B[q] - (B[q] @ k) / (k @ k) * k for q in range(3) if q != p]
            n0, n1 = rest[0] @ rest[0], rest[1] @ rest[1]
            if abs(n0 - n1) <= tol * max(n0, n1) and max(n0, n1) > 1e-24 * dn * dn:
                out.add("a_tie")
            for a in (rest if abs(n0 - n1) <= tol * max(n0, n1) else [rest[0] if n0 >= n1 else rest[1]]):
                aa = a @ a
                if not aa > 1e-24 * dn * dn:
                    continue
                xx = (k @ (D @ k)) / (k @ k)
                yy = (a @ (D @ a)) / aa
                xy = abs(k @ (D @ a)) / onp.sqrt((k @ k) * aa)
                b = (xx - yy) / 2
                big = max(abs(xx), abs(yy), xy)
                if abs(b) <= tol * big and xy > 1e-6 * dn:
                    out.add("b_zero")
                root = onp.sqrt(b * b + xy * xy)
                for e0 in (yy + b - root, yy + b + root):
                    if abs(abs(xx - e0) - abs(yy - e0)) <= tol * big and xy > 1e-6 * dn:
                        out.add("fac_tie")
    return out


def wilkinson_b_vanishes(T):
    """'b_zero' member of deflation_surfaces (input-class predicate of the open finding D23)."""
    return "b_zero" in deflation_surfaces(T)
