"""C15 — numpy reference pieces for the Newmark monitor (no jax, no optimism).

newmark_update_residuals   the two Newmark update formulas, evaluated in long double, with a componentwise rounding bound
p1_consistent_mass         closed-form consistent mass of straight-sided linear triangles, rho*A/12*(1+delta_ab)
polygon_area               sum of the (positive) simplex areas
energy_increment_bound     |E_{n+1}-E_n| <= dt/4 |v_n+v_{n+1}| (|r_n|+|r_{n+1}|) for the trapezoidal rule and a quadratic energy
"""
import numpy as onp

EPS = float(onp.finfo(float).eps)
LD = onp.longdouble


def newmark_update_residuals(U, V, A, Un, Vn, An, dt, beta, gamma):
    """Returns (errU, tolU, errV, tolV): max componentwise defect of
         Un = U + dt V + dt^2 ((1/2-beta) A + beta An),   Vn = V + dt ((1-gamma) A + gamma An)
       and the matching rounding allowances (a few ulp of the gross magnitude of the terms)."""
    U, V, A, Un, Vn, An = [onp.asarray(x, dtype=LD) for x in (U, V, A, Un, Vn, An)]
    dt, beta, gamma = LD(dt), LD(beta), LD(gamma)
    half = LD(1) / LD(2)
    rhsU = U + dt * V + dt * dt * ((half - beta) * A + beta * An)
    rhsV = V + dt * ((LD(1) - gamma) * A + gamma * An)
    magU = onp.abs(U) + onp.abs(dt * V) + dt * dt * (onp.abs(half - beta) * onp.abs(A) + beta * onp.abs(An)) + onp.abs(Un)
    magV = onp.abs(V) + dt * ((LD(1) - gamma) * onp.abs(A) + gamma * onp.abs(An)) + onp.abs(Vn)
    eU = onp.abs(Un - rhsU)
    eV = onp.abs(Vn - rhsV)
    # worst component relative to its own allowance
    tolU = 32 * EPS * magU
    tolV = 32 * EPS * magV
    tiny = LD(1e-300)
    iU = int(onp.argmax(eU / (tolU + tiny))) if eU.size else 0
    iV = int(onp.argmax(eV / (tolV + tiny))) if eV.size else 0
    if eU.size == 0:
        return 0.0, 1.0, 0.0, 1.0
    return float(eU.flat[iU]), float(tolU.flat[iU] + tiny), float(eV.flat[iV]), float(tolV.flat[iV] + tiny)


def simplex_areas(coords, simplex_conns):
    c = onp.asarray(coords, dtype=float)
    t = onp.asarray(simplex_conns, dtype=int)
    a, b, d = c[t[:, 0]], c[t[:, 1]], c[t[:, 2]]
    return 0.5 * ((b[:, 0] - a[:, 0]) * (d[:, 1] - a[:, 1]) - (d[:, 0] - a[:, 0]) * (b[:, 1] - a[:, 1]))


def polygon_area(coords, simplex_conns):
    return float(onp.sum(onp.abs(simplex_areas(coords, simplex_conns))))


def p1_consistent_mass(coords, conns, density):
    """Dense (2 nN x 2 nN) consistent mass for linear triangles, dof = 2*node + component."""
    c = onp.asarray(coords, dtype=float)
    t = onp.asarray(conns, dtype=int)
    nN = c.shape[0]
    M = onp.zeros((2 * nN, 2 * nN))
    areas = onp.abs(simplex_areas(c, t))
    loc = (onp.ones((3, 3)) + onp.eye(3)) / 12.0
    for e in range(t.shape[0]):
        for i in range(2):
            d = 2 * t[e] + i
            M[onp.ix_(d, d)] += density * areas[e] * loc
    return M


def energy_increment_bound(dt, Vn, Vn1, rn, rn1):
    v = onp.linalg.norm(onp.asarray(Vn, dtype=float) + onp.asarray(Vn1, dtype=float))
    return 0.25 * float(dt) * float(v) * (float(onp.linalg.norm(rn)) + float(onp.linalg.norm(rn1)))
