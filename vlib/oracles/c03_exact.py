"""C03 reference model: exact integrals of monomials over triangles, straight edges and [0,1].

Independent of optimism: a collapsed-coordinate (Duffy) Gauss-Jacobi x Gauss-Legendre product rule built from
scipy.special roots (n=14 => exact to total degree 27 on every triangle), evaluated in long double; a 20-point
Gauss-Legendre rule on edges; closed forms i! j!/(i+j+2)! on the unit triangle (fractions.Fraction) used to self-check
the reference rule itself.
"""
from fractions import Fraction
from math import factorial

import numpy as onp
from scipy.special import roots_jacobi, roots_legendre

LD = onp.longdouble
_CACHE = {}


def _jacobi_ld(n, al, be, x):
    """P_n^{(al,be)}(x) by the three-term recurrence in long double."""
    x = onp.asarray(x, dtype=LD)
    p0 = onp.ones_like(x)
    if n == 0:
        return p0
    p1 = LD(al + 1) + LD(al + be + 2) * (x - 1) / 2
    for k in range(2, n + 1):
        a1 = LD(2 * k * (k + al + be) * (2 * k + al + be - 2))
        a2 = LD(2 * k + al + be - 1) * (LD((2 * k + al + be) * (2 * k + al + be - 2)) * x + LD(al * al - be * be))
        a3 = LD(2 * (k + al - 1) * (k + be - 1) * (2 * k + al + be))
        p0, p1 = p1, (a2 * p1 - a3 * p0) / a1
    return p1


def gauss_jacobi_ld(n, al, be):
    """Gauss-Jacobi nodes/weights on [-1,1] for integer al, be in {0,1}: scipy roots polished by Newton in long double;
    weights from 2^(al+be+1) G(n+al+1) G(n+be+1) / (G(n+al+be+1) n! (1-x^2) P_n'(x)^2)."""
    from math import factorial
    x0 = roots_jacobi(n, float(al), float(be))[0] if (al or be) else roots_legendre(n)[0]
    x = onp.asarray(x0, dtype=LD)
    for _ in range(4):
        dp = LD(n + al + be + 1) / 2 * _jacobi_ld(n - 1, al + 1, be + 1, x)
        x = x - _jacobi_ld(n, al, be, x) / dp
    dp = LD(n + al + be + 1) / 2 * _jacobi_ld(n - 1, al + 1, be + 1, x)
    c = LD(2 ** (al + be + 1)) * LD(factorial(n + al)) * LD(factorial(n + be)) / (LD(factorial(n + al + be)) * LD(factorial(n)))
    w = c / ((1 - x * x) * dp * dp)
    return x, w


def tri_rule(n=14):
    """Points (xi, eta) in the unit triangle (0,0)-(1,0)-(0,1) and weights (sum = 1/2), long double."""
    if n not in _CACHE:
        x1, w1 = gauss_jacobi_ld(n, 0, 0)
        x1 = (x1 + 1) / 2
        w1 = w1 / 2
        x2, w2 = gauss_jacobi_ld(n, 1, 0)             # weight (1-t) on [-1,1]
        x2 = (x2 + 1) / 2
        w2 = w2 / 4                                   # int_0^1 (1-a) f(a) da
        a = onp.repeat(x2, n)
        b = onp.tile(x1, n)
        w = onp.repeat(w2, n) * onp.tile(w1, n)
        _CACHE[n] = (onp.column_stack((a, b * (1 - a))), w)
    return _CACHE[n]


def unit_triangle_exact(i, j):
    return Fraction(factorial(i) * factorial(j), factorial(i + j + 2))


def selfcheck(maxdeg=27):
    """Largest relative error of the reference rule on the unit triangle against the closed form."""
    P, w = tri_rule()
    worst = 0.0
    for i in range(maxdeg + 1):
        for j in range(maxdeg + 1 - i):
            got = (w * P[:, 0] ** i * P[:, 1] ** j).sum()
            ex = unit_triangle_exact(i, j)
            worst = max(worst, float(abs(got * LD(ex.denominator) / LD(ex.numerator) - 1)))
    return worst


def _ipow(x, k):
    return onp.ones_like(x) if k == 0 else x ** int(k)


def tri_points(coords, tri):
    """Reference-rule points in every triangle: (nE, nq, 2) long double, and (nE,) jacobians (2*area, signed)."""
    c = onp.asarray(coords, dtype=LD)
    t = onp.asarray(tri, dtype=int)
    P, w = tri_rule()
    v0, v1, v2 = c[t[:, 0]], c[t[:, 1]], c[t[:, 2]]
    X = v0[:, None, :] + P[None, :, 0:1] * (v1 - v0)[:, None, :] + P[None, :, 1:2] * (v2 - v0)[:, None, :]
    J = (v1[:, 0] - v0[:, 0]) * (v2[:, 1] - v0[:, 1]) - (v1[:, 1] - v0[:, 1]) * (v2[:, 0] - v0[:, 0])
    return X, J, w


def integrate_poly_terms(coords, tri, terms, elems=None):
    """Exact  sum_T int_T sum_k c_k x^i_k y^j_k  for terms = [(c, i, j), ...]; returns (value, sum of |w||f|) as floats."""
    X, J, w = tri_points(coords, tri)
    if elems is not None:
        X, J = X[elems], J[elems]
    f = onp.zeros(X.shape[:2], dtype=LD)
    for c, i, j in terms:
        f = f + LD(c) * _ipow(X[..., 0], i) * _ipow(X[..., 1], j)
    W = J[:, None] * w[None, :]
    return float((W * f).sum()), float((onp.abs(W) * onp.abs(f)).sum())


def monomial_integrals(coords, tri, exps, r_weight=False):
    """Exact integrals of x^i y^j (times 2 pi x if r_weight) over the mesh, for every (i, j) in exps.
    Returns (values, abs_scale) as float arrays; abs_scale = sum |w| |f|."""
    X, J, w = tri_points(coords, tri)
    W = J[:, None] * w[None, :]
    maxd = max(max(i, j) for i, j in exps) + (1 if r_weight else 0)
    xp = [onp.ones_like(X[..., 0])]
    yp = [onp.ones_like(X[..., 0])]
    for _ in range(maxd):
        xp.append(xp[-1] * X[..., 0])
        yp.append(yp[-1] * X[..., 1])
    vals, scal = [], []
    two_pi = 2 * LD(onp.pi) if r_weight else LD(1)
    # note: LD(onp.pi) is pi rounded to double; enough for a 1e-13 comparison
    for i, j in exps:
        f = xp[i + (1 if r_weight else 0)] * yp[j] * two_pi
        vals.append(float((W * f).sum()))
        scal.append(float((onp.abs(W) * onp.abs(f)).sum()))
    return onp.array(vals), onp.array(scal)


def shoelace_area(coords, tri):
    c = onp.asarray(coords, dtype=LD)
    t = onp.asarray(tri, dtype=int)
    a, b, d = c[t[:, 0]], c[t[:, 1]], c[t[:, 2]]
    return 0.5 * ((b[:, 0] - a[:, 0]) * (d[:, 1] - a[:, 1]) - (d[:, 0] - a[:, 0]) * (b[:, 1] - a[:, 1]))


def edge_flux_terms(coords, segs, terms_x, terms_y, n=20):
    """Independent boundary flux  sum_edges int (Fx n_x + Fy n_y) ds  for directed segments (a,b) with the body on the left
    (outward normal = (t_y, -t_x)); 20-point Gauss-Legendre.  Returns (value, abs scale)."""
    c = onp.asarray(coords, dtype=LD)
    s = onp.asarray(segs, dtype=int)
    x, w = gauss_jacobi_ld(n, 0, 0)
    x = (x + 1) / 2
    w = w / 2
    A, B = c[s[:, 0]], c[s[:, 1]]
    T = B - A
    X = A[:, None, :] + x[None, :, None] * T[:, None, :]
    # n ds = (t_y, -t_x) dt   (|T| cancels)
    fx = onp.zeros(X.shape[:2], dtype=LD)
    fy = onp.zeros(X.shape[:2], dtype=LD)
    for cf, i, j in terms_x:
        fx = fx + LD(cf) * _ipow(X[..., 0], i) * _ipow(X[..., 1], j)
    for cf, i, j in terms_y:
        fy = fy + LD(cf) * _ipow(X[..., 0], i) * _ipow(X[..., 1], j)
    g = fx * T[:, 1:2] - fy * T[:, 0:1]
    return float((g * w[None, :]).sum()), float((onp.abs(g) * w[None, :]).sum())


def min_altitude(coords, tri):
    c = onp.asarray(coords, dtype=float)
    t = onp.asarray(tri, dtype=int)
    a, b, d = c[t[:, 0]], c[t[:, 1]], c[t[:, 2]]
    area2 = onp.abs((b[:, 0] - a[:, 0]) * (d[:, 1] - a[:, 1]) - (d[:, 0] - a[:, 0]) * (b[:, 1] - a[:, 1]))
    lmax = onp.maximum.reduce([onp.linalg.norm(b - a, axis=1), onp.linalg.norm(d - b, axis=1), onp.linalg.norm(a - d, axis=1)])
    return area2 / lmax          # per element
