"""Reference models for C16 (contact geometry).  numpy only, extended precision, deliberately dumb.

Conventions taken from the *specification* (not from the code under test):
  * a segment is an ordered pair of points (a, b); its outward normal is the tangent rotated by -90 degrees,
    n = (t_y, -t_x)/|t| with t = b - a;
  * the signed distance of p is  +dist(p, segment) on the side the normal points to, -dist on the other side;
  * a mortar pair (A, B) is projected along a common normal n; the overlap is the intersection of the two shadows on the
    axis perpendicular to n.
"""
import numpy as onp

LD = onp.longdouble


def ld(x):
    return onp.asarray(x, dtype=LD)


def perp(t):
    """tangent -> (unnormalised) outward normal."""
    t = ld(t)
    return onp.stack([t[..., 1], -t[..., 0]], axis=-1)


def norm(v):
    v = ld(v)
    return onp.sqrt(onp.sum(v * v, axis=-1))


# -------------------------------------------------------------------------------------------------- closest point

def closest_point_closed_form(edges, pts):
    """edges (N,2,2), pts (N,2) -> q (N,2), t (N,), dist (N,), side (N,) all longdouble; side = n.(p-a)/|n| (signed line distance)."""
    e = ld(edges)
    p = ld(pts)
    a, b = e[:, 0], e[:, 1]
    v = b - a
    vv = onp.sum(v * v, axis=-1)
    t = onp.sum((p - a) * v, axis=-1) / vv
    t = onp.clip(t, LD(0), LD(1))
    q = a + t[:, None] * v
    d = norm(p - q)
    n = perp(v)
    side = onp.sum(n * (p - a), axis=-1) / onp.sqrt(vv)
    return q, t, d, side


def closest_distance_brute(edges, pts, nsamp=2049, refine=90, chunk=256):
    """Chunked driver (memory) around _closest_distance_brute."""
    edges = onp.asarray(edges)
    pts = onp.asarray(pts)
    return onp.concatenate([_closest_distance_brute(edges[k:k + chunk], pts[k:k + chunk], nsamp, refine)
                            for k in range(0, len(pts), chunk)])


def _closest_distance_brute(edges, pts, nsamp, refine):
    """Brute force: sample the segment densely, then shrink a bracket around the best sample (the squared distance is a
    convex parabola in the segment parameter, so ternary search is safe).  Returns the minimal distance (N,)."""
    e = ld(edges)
    p = ld(pts)
    a, b = e[:, 0], e[:, 1]
    v = b - a
    ts = onp.linspace(LD(0), LD(1), nsamp).astype(LD)

    def d2(t):  # t (N,k)
        x = a[:, None, :] + t[..., None] * v[:, None, :] - p[:, None, :]
        return onp.sum(x * x, axis=-1)

    D = d2(onp.broadcast_to(ts, (len(p), nsamp)))
    k = onp.argmin(D, axis=1)
    lo = ts[onp.maximum(k - 1, 0)]
    hi = ts[onp.minimum(k + 1, nsamp - 1)]
    for _ in range(refine):
        m1 = lo + (hi - lo) / LD(3)
        m2 = hi - (hi - lo) / LD(3)
        f1 = d2(m1[:, None])[:, 0]
        f2 = d2(m2[:, None])[:, 0]
        left = f1 <= f2
        hi = onp.where(left, m2, hi)
        lo = onp.where(left, lo, m1)
    tb = (lo + hi) / LD(2)
    best = onp.minimum(d2(tb[:, None])[:, 0], onp.min(D, axis=1))
    # the end points are always candidates
    best = onp.minimum(best, onp.minimum(d2(onp.zeros((len(p), 1), LD))[:, 0], d2(onp.ones((len(p), 1), LD))[:, 0]))
    return onp.sqrt(best)


# --------------------------------------------------------------------------------------------------------- mortar

def unit_normal(edge):
    e = ld(edge)
    n = perp(e[..., 1, :] - e[..., 0, :])
    return n / norm(n)[..., None]


def common_normal(A, B, policy):
    """policy 'a': normal of A; 'avg': (nA - nB)/|nA - nB|.  Also returns c = |nA - nB| (2 = facing, 0 = coinciding)."""
    nA, nB = unit_normal(A), unit_normal(B)
    diff = nA - nB
    c = norm(diff)
    if policy == "a":
        return nA, c
    with onp.errstate(divide="ignore", invalid="ignore"):
        return diff / c[..., None], c


def shadows(A, B, n):
    """Intervals of A and B on the axis perpendicular to n, overlap length on that axis and separation (>0 = disjoint)."""
    A, B = ld(A), ld(B)
    tau = onp.stack([-n[..., 1], n[..., 0]], axis=-1)
    sA = onp.sum(A * tau[..., None, :], axis=-1)
    sB = onp.sum(B * tau[..., None, :], axis=-1)
    loA, hiA = sA.min(-1), sA.max(-1)
    loB, hiB = sB.min(-1), sB.max(-1)
    lo = onp.maximum(loA, loB)
    hi = onp.minimum(hiA, hiB)
    ov = onp.maximum(hi - lo, LD(0))
    return {"sA": sA, "sB": sB, "lo": lo, "hi": hi, "ov": ov, "sep": lo - hi, "lenA": hiA - loA, "lenB": hiB - loB}


def parallel_pair_reference(A, B, n):
    """For a pair of parallel segments (both perpendicular to n): exact mortar integrals of 1, xiA, g, g^2 over the
    overlap.  g is the signed gap from A to B along n."""
    A, B = ld(A), ld(B)
    sh = shadows(A, B, n)
    h = onp.sum((B[..., 0, :] - A[..., 0, :]) * n, axis=-1)
    mid = (sh["lo"] + sh["hi"]) / LD(2)
    sA = sh["sA"]
    xi_mid = (mid - sA[..., 0]) / (sA[..., 1] - sA[..., 0])
    ov = sh["ov"]
    return {"one": ov, "xiA": ov * xi_mid, "g": ov * h, "g2": ov * h * h, "h": h, "ov": ov, "sep": sh["sep"]}


# ----------------------------------------------------------------------------------------------- assembled mortar

def hat_integrals(nodes_s, lo, hi):
    """Integrals over [lo, hi] of the piecewise-linear hat functions of a 1-D mesh with sorted node abscissae nodes_s.
    Exact (piecewise trapezoid); returns an array of len(nodes_s)."""
    s = ld(nodes_s)
    out = onp.zeros(len(s), dtype=LD)
    if not (hi > lo):
        return out
    for j in range(len(s) - 1):
        a = max(s[j], lo)
        b = min(s[j + 1], hi)
        if b <= a:
            continue
        L = s[j + 1] - s[j]
        # N_left = (s[j+1]-x)/L, N_right = (x-s[j])/L  integrated over [a,b]
        m = (a + b) / LD(2)
        out[j] += (b - a) * (s[j + 1] - m) / L
        out[j + 1] += (b - a) * (m - s[j]) / L
    return out


# ------------------------------------------------------------------------------------------------------- obstacles

def gauss01(n):
    x, w = onp.polynomial.legendre.leggauss(n)
    return 0.5 * (x + 1.0), 0.5 * w


def levelset_value(kind, params, x):
    """Obstacle function at points x (..., 2): positive outside the obstacle (admissible side)."""
    x = onp.asarray(x, dtype=float)
    if kind == "plane":      # half-plane  y <= yLoc admissible
        return params[0] - x[..., 1]
    if kind == "corner":     # quadrant x >= xLoc, y >= yLoc admissible
        return onp.minimum(x[..., 0] - params[0], x[..., 1] - params[1])
    if kind == "circle":     # outside of the disc admissible
        return onp.sqrt((x[..., 0] - params[0]) ** 2 + (x[..., 1] - params[1]) ** 2) - params[2]
    raise ValueError(kind)


def segment_union_distance(segs, p):
    """Euclidean distance of p (2,) to each segment of segs (M,2,2) and the signed line distance for each (closed form,
    longdouble)."""
    M = len(segs)
    q, t, d, side = closest_point_closed_form(segs, onp.broadcast_to(onp.asarray(p, dtype=float), (M, 2)))
    return d, side
