"""C19 — dense reference models.

* `dense_derivs(...)`: gradient, Hessian (jacfwd of the harness's own gradient) and d(grad)/dp0, d(grad)/dp2 (jacfwd)
  of the function the library object minimises, expressed in the variable the library iterates on
  (xbar = S x for scaled objects), including the augmented-Lagrangian term for constrained objects:
      L(xbar) = energy(sinv*xbar; p0, p2, t) + sum_i psi(lam_i, kappa_i, c_i),   c = G xbar - h + F p0,
      psi = -c l + k c^2/2  if l >= k c  else  -l^2/(2k)                     (the C1 augmented-Lagrangian penalty)
  One jitted function per (shape, family, constrained?) — data are arguments, so all cases of a worker share it.
* `warm_start_reference`: dx_ref = H^-1 dg/dp (p_old - p_new) by numpy.linalg.solve, residual and error bounds from
  scipy.cg's documented stopping rule ||H dx - b|| <= rtol ||b||, rtol = 1e-5 (atol = 0).
* `box_qp_reference`: exact BVLS active-set solution of a strictly convex box QP with a projected-gradient certificate.
Nothing here calls into optimism.
"""
import numpy as onp

EPS = float(onp.finfo(float).eps)
CG_RTOL = 1e-5          # scipy.sparse.linalg.cg default rtol; WarmStart passes no tolerance

_JIT = {}


def _oracle(nl, has_con):
    key = (bool(nl), bool(has_con))
    if key in _JIT:
        return _JIT[key]
    import jax
    import jax.numpy as np
    from vlib.gen.c19_energies import energy_data

    def L(xbar, p0, p2, t, lam, kap, sinv, d, con):
        v = energy_data(sinv * xbar, p0, p2, t, d, nl)
        if has_con:
            c = con["G"] @ xbar - con["h"] + con["F"] @ p0
            v = v + np.sum(np.where(lam >= kap * c, -c * lam + 0.5 * kap * c * c, -0.5 * lam * lam / kap))
        return v

    g = jax.grad(L, 0)

    def all_derivs(xbar, p0, p2, t, lam, kap, sinv, d, con):
        return (g(xbar, p0, p2, t, lam, kap, sinv, d, con),
                jax.jacfwd(g, 0)(xbar, p0, p2, t, lam, kap, sinv, d, con),
                jax.jacfwd(g, 1)(xbar, p0, p2, t, lam, kap, sinv, d, con),
                jax.jacfwd(g, 2)(xbar, p0, p2, t, lam, kap, sinv, d, con))

    _JIT[key] = jax.jit(all_derivs)
    return _JIT[key]


class Twin:
    """Harness-side twin of one library objective (plain / scaled / constrained / bound-constrained)."""

    def __init__(self, E, sinv=None, con=None):
        import jax.numpy as np
        from vlib.gen.c19_energies import jax_data
        self.E = E
        self.n = E["n"]
        self.nl = E["family"] == "nl"
        self.sinv = onp.ones(self.n) if sinv is None else onp.array(sinv, dtype=float) * onp.ones(self.n)
        self.con = con
        self._d = jax_data(E)
        self._con = {k: np.array(v) for k, v in con.items()} if con is not None else {}
        self._f = _oracle(self.nl, con is not None)

    def derivs(self, xbar, p0, p2, t, lam=None, kap=None):
        import jax.numpy as np
        m = 0 if self.con is None else len(self.con["h"])
        lam = onp.zeros(m) if lam is None else lam
        kap = onp.ones(m) if kap is None else kap
        out = self._f(np.array(xbar), np.array(p0), np.array(p2), np.array(float(t)), np.array(lam), np.array(kap),
                      np.array(self.sinv), self._d, self._con)
        return [onp.array(o, dtype=float) for o in out]

    # numpy closed forms (cross-check of the jax twin, and the gradient used for the flag clause)
    def grad_np(self, xbar, p0, p2, t, lam=None, kap=None):
        from vlib.gen import c19_energies as gen
        x = self.sinv * xbar
        g = self.sinv * gen.grad_np(self.E, x, p0, p2, t)
        if self.con is not None:
            c = self.cons_np(xbar, p0)
            g = g - self.con["G"].T @ onp.maximum(lam - kap * c, 0.0)
        return g

    def grad_mag_np(self, xbar, p0, p2, t, lam=None, kap=None):
        from vlib.gen import c19_energies as gen
        x = self.sinv * xbar
        g = self.sinv * gen.grad_mag_np(self.E, x, p0, p2, t)
        if self.con is not None:
            c = self.cons_np(xbar, p0)
            g = g + onp.abs(self.con["G"]).T @ onp.abs(onp.maximum(lam - kap * c, 0.0))
        return g

    def cons_np(self, xbar, p0):
        return self.con["G"] @ xbar - self.con["h"] + self.con["F"] @ p0


def slots_equal(a, b):
    """Slot-by-slot comparison of two parameter tuples; returns (ok, first differing slot)."""
    try:
        if len(a) != len(b):
            return False, -1
    except TypeError:
        return False, -1
    for i, (u, v) in enumerate(zip(a, b)):
        if (u is None) != (v is None):
            return False, i
        if u is None:
            continue
        ua, va = onp.asarray(u), onp.asarray(v)
        if ua.shape != va.shape or not onp.array_equal(ua, va):
            return False, i
    return True, None


def warm_start_reference(H, dgdp, p_old_slot, p_new_slot):
    """b = dg/dp (p_old - p_new);  dx_ref = H^-1 b  (= - H^-1 [linearised change of the gradient])."""
    dp = onp.asarray(p_old_slot, dtype=float) - onp.asarray(p_new_slot, dtype=float)
    b = dgdp @ dp
    bmag = onp.abs(dgdp) @ onp.abs(dp)
    dx_ref = onp.linalg.solve(H, b)
    ev = onp.linalg.eigvalsh(0.5 * (H + H.T))
    return {"b": b, "bmag": bmag, "dx_ref": dx_ref, "cond": float(ev[-1] / ev[0]), "lmin": float(ev[0]), "lmax": float(ev[-1])}


def check_warm_start(res, dx, H, ref, prefix):
    """Residual and error clauses for one warm-start increment against the dense reference."""
    dx = onp.asarray(dx, dtype=float)
    b = ref["b"]
    nb = float(onp.linalg.norm(b))
    n = len(b)
    if dx.shape != b.shape or not onp.all(onp.isfinite(dx)):
        res.expect(prefix + "warm_start_residual", False, {"dx": dx[:12], "shape": list(dx.shape)})
        return
    rounding = 64 * EPS * (float(onp.linalg.norm(onp.abs(H) @ onp.abs(dx))) + float(onp.linalg.norm(ref["bmag"]))) * n ** 0.5
    r = float(onp.linalg.norm(H @ dx - b))
    res.bound(prefix + "warm_start_residual", r, CG_RTOL * nb + rounding,
              {"dx": dx[:12], "dx_ref": ref["dx_ref"][:12], "norm_b": nb, "cond": ref["cond"]})
    e = float(onp.linalg.norm(dx - ref["dx_ref"]))
    res.bound(prefix + "warm_start_increment_error", e,
              CG_RTOL * ref["cond"] * float(onp.linalg.norm(ref["dx_ref"])) + rounding / ref["lmin"],
              {"dx": dx[:12], "dx_ref": ref["dx_ref"][:12], "cond": ref["cond"]})


def box_qp_reference(Abar, qbar, lbar, ubar):
    """min 0.5 y'Abar y - qbar'y, lbar <= y <= ubar by BVLS on the Cholesky factor; returns (y, certificate residual)."""
    from scipy.optimize import lsq_linear
    R = onp.linalg.cholesky(Abar).T
    rhs = onp.linalg.solve(R.T, qbar)
    sol = lsq_linear(R, rhs, bounds=(lbar, ubar), method="bvls", tol=1e-15, max_iter=2000)
    y = onp.clip(sol.x, lbar, ubar)
    # polish: exact solve on the free set
    g = Abar @ y - qbar
    atl = (y <= lbar) & (g >= 0)
    atu = (y >= ubar) & (g <= 0)
    free = ~(atl | atu)
    if free.any():
        yf = y.copy()
        rhsf = qbar[free] - Abar[onp.ix_(free, ~free)] @ y[~free]
        yf[free] = onp.linalg.solve(Abar[onp.ix_(free, free)], rhsf)
        if onp.all(yf >= lbar) and onp.all(yf <= ubar):
            y = yf
    g = Abar @ y - qbar
    cert = float(onp.linalg.norm(onp.clip(y - g, lbar, ubar) - y))
    return y, cert


def fb_residual(c, lam, kappa0):
    a = kappa0 * c
    return onp.sqrt(a * a + lam * lam) - a - lam
