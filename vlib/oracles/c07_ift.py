"""C07 reference model: implicit-function-theorem sensitivities with dense linear algebra.

Nothing here imports optimism.  Dense Jacobians are taken with *forward-mode* jax.jacfwd of jax.grad(f) built directly
on the energy (not on the library's Objective closures, and not with reverse-mode products), all linear algebra is
numpy (LAPACK solve / eigvalsh / 2-norms).  For load-step chains the reference gradient is accumulated by *forward*
sensitivities  dU_k/dtheta = -H_k^{-1} sum_slot G_slot,k dp_slot,k/dtheta ; a reverse sweep over the same dense
matrices supplies the cotangent norms the tolerance needs and doubles as a self-check of the reference.
"""
import numpy as onp

SLOTS = (0, 1, 2, 4)


def with_slot(p, k, q):
    return type(p)(*[q if i == k else p[i] for i in range(len(p))])


def populated(p):
    """Differentiable slots that are present and non-empty."""
    return [k for k in SLOTS if p[k] is not None and onp.size(p[k]) > 0]


def make_dense_derivs(f, upd):
    """Returns jitted  derivs(x, p) -> dict(g, H, G{k}, [S, Jx, J{k}])  with dense forward-mode Jacobians."""
    import jax

    g = jax.grad(f, 0)

    def derivs(x, p):
        slots = populated(p)
        out = {"g": g(x, p), "H": jax.jacfwd(g, 0)(x, p)}
        for k in slots:
            out["G%d" % k] = jax.jacfwd(lambda q, k=k: g(x, with_slot(p, k, q)))(p[k])
        if upd is not None:
            out["S"] = upd(x, p)
            out["Jx"] = jax.jacfwd(upd, 0)(x, p)
            for k in slots:
                out["J%d" % k] = jax.jacfwd(lambda q, k=k: upd(x, with_slot(p, k, q)))(p[k])
        return out

    return jax.jit(derivs)


class StepRef:
    """Dense data of one equilibrium point (numpy)."""

    def __init__(self, d, p):
        self.slots = populated(p)
        self.n = int(onp.size(d["g"]))
        self.g = onp.asarray(d["g"], dtype=float).reshape(self.n)
        H = onp.asarray(d["H"], dtype=float).reshape(self.n, self.n)
        self.asym = float(onp.max(onp.abs(H - H.T))) if self.n else 0.0
        self.H = H
        self.eig = onp.linalg.eigvalsh(0.5 * (H + H.T))
        self.lmin = float(self.eig[0])
        self.lmax = float(self.eig[-1])
        self.shape = {k: tuple(onp.shape(p[k])) for k in self.slots}
        self.G = {k: onp.asarray(d["G%d" % k], dtype=float).reshape(self.n, -1) for k in self.slots}
        self.Gnorm = {k: float(onp.linalg.norm(self.G[k], 2)) if self.G[k].size else 0.0 for k in self.slots}
        self.has_upd = "S" in d
        if self.has_upd:
            self.S = onp.asarray(d["S"], dtype=float)
            ns = self.S.size
            self.Jx = onp.asarray(d["Jx"], dtype=float).reshape(ns, self.n)
            self.J = {k: onp.asarray(d["J%d" % k], dtype=float).reshape(ns, -1) for k in self.slots}

    def finite(self):
        ok = onp.all(onp.isfinite(self.H)) and onp.all(onp.isfinite(self.g))
        return bool(ok and all(onp.all(onp.isfinite(G)) for G in self.G.values()))

    def adjoint(self, v):
        """lambda = -H^{-1} v (numpy LAPACK solve)."""
        return -onp.linalg.solve(self.H, onp.asarray(v, dtype=float).reshape(self.n))

    def cotangents(self, v):
        """IFT pull-back of cotangent v on the solution: slot -> v^T dU/dp_slot, shaped like the slot."""
        lam = self.adjoint(v)
        return {k: (lam @ self.G[k]).reshape(self.shape[k]) for k in self.slots}

    def allowed(self, k, vnorm, cg_tol, ratio, safety, rnd):
        """Bound on |library cotangent - reference| for slot k implied by the adjoint CG's own stopping rule
        ||H z + v|| < max(cg_tol, ratio ||v||): error of z <= that/lmin(H); times ||G_k||_2; plus a rounding floor."""
        rho = max(cg_tol, ratio * vnorm)
        return self.Gnorm[k] * (safety * rho + rnd * vnorm) / self.lmin


def theta_layout(p0):
    """Offsets of the populated slots of the *first-step* parameters in the flattened design vector theta."""
    off, lay = 0, {}
    for k in populated(p0):
        sz = int(onp.size(p0[k]))
        lay[k] = (off, off + sz)
        off += sz
    return lay, off


def chain_reference(steps, lay, ntheta, slot_scale, vs, w):
    """Forward-sensitivity gradient of  q = sum_k v_k.U_k + w.S_K  for the load-step chain

        p_k[slot] = slot_scale[k][slot] * theta[slot]   (slot != 1),   p_k[1] = S_{k-1}  (S_0 = theta[1]),
        U_k solves grad f(U_k, p_k) = 0,  S_k = upd(U_k, p_k).

    steps: list of StepRef at the library's returned U_k.  Returns (grad_theta, info) where info holds, per step,
    the amplification ||H_k dU_k/dtheta||_2 and the norm of the total cotangent reaching U_k (reverse sweep) that the
    tolerance needs, and the forward/reverse mismatch of the reference itself."""
    K = len(steps)
    has_state = 1 in lay and steps[0].has_upd and 1 in steps[0].slots
    dS = None
    if 1 in lay:
        a, b = lay[1]
        dS = onp.zeros((b - a, ntheta))
        dS[:, a:b] = onp.eye(b - a)
    grad = onp.zeros(ntheta)
    amp = []
    dPs = []
    for k, st in enumerate(steps):
        dP = {}
        for s in st.slots:
            if s == 1:
                if dS is not None:
                    dP[1] = dS
            elif s in lay:          # slots outside the layout are constants of the chain
                a, b = lay[s]
                M = onp.zeros((b - a, ntheta))
                M[:, a:b] = slot_scale[k][s] * onp.eye(b - a)
                dP[s] = M
        rhs = onp.zeros((st.n, ntheta))
        for s in dP:
            rhs = rhs + st.G[s] @ dP[s]
        dU = -onp.linalg.solve(st.H, rhs)
        amp.append(float(onp.linalg.norm(rhs, 2)))
        grad += onp.asarray(vs[k]).reshape(-1) @ dU
        if has_state:
            dS = st.Jx @ dU
            for s in dP:
                dS = dS + st.J[s] @ dP[s]
        dPs.append(dP)
    if has_state and w is not None:
        grad += onp.asarray(w).reshape(-1) @ dS
    # reverse sweep on the same dense data: cotangent norms + self-check
    gr = onp.zeros(ntheta)
    ws = onp.asarray(w, dtype=float).reshape(-1) if (has_state and w is not None) else None
    vt_norm = [0.0] * K
    for k in range(K - 1, -1, -1):
        st = steps[k]
        vt = onp.asarray(vs[k], dtype=float).reshape(-1).copy()
        cp = {s: onp.zeros(st.G[s].shape[1]) for s in st.slots}
        if ws is not None:
            vt += st.Jx.T @ ws
            for s in st.slots:
                cp[s] += st.J[s].T @ ws
        vt_norm[k] = float(onp.linalg.norm(vt))
        lam = -onp.linalg.solve(st.H, vt)
        for s in st.slots:
            cp[s] += st.G[s].T @ lam
        for s in st.slots:
            if s == 1 or s not in lay:
                continue
            a, b = lay[s]
            gr[a:b] += slot_scale[k][s] * cp[s]
        ws = cp[1] if (1 in cp and has_state and 1 in lay) else None
        if 1 in cp and 1 in lay and not has_state:
            # state slot populated but never updated: it is a plain parameter reused in every step
            a, b = lay[1]
            gr[a:b] += cp[1]
    if ws is not None:
        a, b = lay[1]
        gr[a:b] += ws
    info = {"amp": amp, "vt_norm": vt_norm, "self_mismatch": float(onp.linalg.norm(gr - grad)),
            "scale": float(onp.linalg.norm(grad))}
    return grad, info


def richardson_central(phi, h):
    """O(h^4) central-difference estimate of phi'(0) from four evaluations."""
    d1 = (phi(h) - phi(-h)) / (2.0 * h)
    d2 = (phi(0.5 * h) - phi(-0.5 * h)) / h
    return (4.0 * d2 - d1) / 3.0, abs(d2 - d1)
