"""C04 — oracles: offline checker for the (lam, kappa) trace, KKT certificate with the tolerances implied by the
solver's termination rule, exact active-set enumeration for strictly convex QPs with few linear constraints.

numpy only.  Nothing here calls into optimism.

Termination rule of augmented_lagrange_solve:   || [ grad_x L_A(x; lam, kappa) ; phi_FB(kappa0*c, lam) ] ||_2 < tol
with  grad_x L_A = grad f - J' max(lam - kappa*c, 0),  phi_FB(a, b) = sqrt(a^2+b^2) - a - b,  kappa0 = the penalties the
objective was constructed with, kappa = the current ones (kappa_i = r_i kappa0_i, r_i >= 1).
Facts used:  (2 - sqrt 2) |min(a, b)| <= |phi_FB(a, b)|   (so |min(kappa0 c_i, lam_i)| <= 1.7072 tol),
             lam - max(lam - kappa c, 0) = min(lam, kappa c),   |min(lam, r a)| <= r |min(lam, a)|  for r >= 1, lam >= 0.
=> stationarity   ||grad f - J' lam|| <= tol (1 + 1.7072 ||J||_2 max r)
   feasibility    c_i >= -1.7072 tol / kappa0_i
   complementarity |lam_i c_i| <= 1.7072 tol max(lam_i, kappa0_i |c_i|) / kappa0_i
The constant is rounded up to 1.8 (DESIGN C04) and a rounding allowance for the harness's own re-evaluation is added.
"""
import itertools

import numpy as onp

EPS = float(onp.finfo(float).eps)
FB = 1.8


def trace_check(res, hist, prefix=""):
    """hist: list of (lam, kappa) snapshots; index 0 = state handed to the solver, k >= 1 = after outer iteration k."""
    n_inc = 0
    for k, (lam, kap) in enumerate(hist):
        res.count("trace_snapshots")
        fin = bool(onp.all(onp.isfinite(lam)) and onp.all(onp.isfinite(kap)))
        if k >= 1:
            res.expect(prefix + "trace_multipliers_nonnegative", fin and bool(onp.all(lam >= 0.0)),
                       {"outer_iteration": k, "min_lam": float(onp.min(lam)) if lam.size else 0.0, "lam": lam[:12]})
            kprev = hist[k - 1][1]
            ok = fin and kap.shape == kprev.shape and bool(onp.all(kap >= kprev))
            res.expect(prefix + "trace_penalty_nondecreasing", ok,
                       {"outer_iteration": k, "kappa_before": kprev[:12], "kappa_after": kap[:12]})
            if ok and onp.any(kap > kprev):
                n_inc += 1
    return n_inc


def kkt_allowances(tol, lam, c, J, kappa, kappa0, gradf_mag, cmag):
    """Allowed residuals at a normal return (see module docstring)."""
    rmax = float(onp.max(kappa / kappa0)) if len(kappa0) else 1.0
    Jn = float(onp.linalg.norm(J, 2)) if J.size else 0.0
    n = J.shape[1]
    round_g = 64 * EPS * (gradf_mag + float(onp.linalg.norm(onp.abs(J).T @ onp.abs(lam)))) * max(1.0, n ** 0.5)
    stat = tol * (1.0 + FB * Jn * rmax) + round_g
    round_c = 64 * EPS * cmag
    feas = FB * tol / kappa0 + round_c
    comp = FB * tol * onp.maximum(lam, kappa0 * onp.abs(c)) / kappa0 + round_c * onp.abs(lam)
    return {"stat": stat, "feas": feas, "comp": comp, "rmax": rmax, "Jnorm": Jn}


def kkt_check(res, tol, x, lam, gradf, c, J, kappa, kappa0, gradf_mag, cmag, prefix="", mech=None):
    al = kkt_allowances(tol, lam, c, J, kappa, kappa0, gradf_mag, cmag)
    stat = float(onp.linalg.norm(gradf - J.T @ lam))
    res.bound(prefix + "kkt_stationarity", stat, al["stat"],
              {"grad_f": gradf[:12], "lam": lam[:12], "rmax": al["rmax"], "Jnorm": al["Jnorm"], "tol": tol}, mech)
    res.expect(prefix + "kkt_multipliers_nonnegative", bool(onp.all(lam >= 0.0) and onp.all(onp.isfinite(lam))),
               {"lam": lam[:12]}, mech)
    if len(c):
        i = int(onp.argmax(-c / al["feas"]))
        res.bound(prefix + "kkt_feasibility", float(-c[i]), float(al["feas"][i]),
                  {"i": i, "c": c[:12], "kappa0": kappa0[:12], "tol": tol}, mech)
        pr = onp.abs(lam * c)
        j = int(onp.argmax(pr / onp.maximum(al["comp"], 1e-300)))
        res.bound(prefix + "kkt_complementarity", float(pr[j]), float(al["comp"][j]),
                  {"i": j, "lam_i": float(lam[j]), "c_i": float(c[j]), "kappa0_i": float(kappa0[j]), "tol": tol}, mech)
    res.count("kkt_checked")
    return al, stat


def xstar_radius(mu, al, lamstar):
    """Rigorous distance bound for a mu-strongly convex program from approximate KKT (x, lam) vs exact (x*, lam*):
         mu |x-x*|^2 <= |grad L(x,lam)| |x-x*| + sum_i |lam_i c_i(x)| + sum_i lam*_i max(-c_i(x), 0)."""
    g = al["stat"]
    extra = float(onp.sum(al["comp"]) + onp.sum(lamstar * al["feas"]))
    return (g + (g * g + 4.0 * mu * extra) ** 0.5) / (2.0 * mu)


def enumerate_active_sets(A, b, G, h, feas_tol=1e-9):
    """min 0.5 x'Ax - b'x  s.t. Gx - h >= 0,  A SPD, m <= 6: try every active set, return (x, lam, n_kkt_points).
    Singular KKT systems (dependent rows) are skipped: some independent subset represents the same point."""
    m, n = G.shape
    best = None
    count = 0
    scale = 1.0 + onp.linalg.norm(b)
    for k in range(m + 1):
        for S in itertools.combinations(range(m), k):
            S = list(S)
            if S:
                Gs = G[S]
                K = onp.block([[A, -Gs.T], [Gs, onp.zeros((k, k))]])
                rhs = onp.concatenate([b, h[S]])
                if onp.linalg.matrix_rank(Gs) < k:
                    continue
                try:
                    sol = onp.linalg.solve(K, rhs)
                except onp.linalg.LinAlgError:
                    continue
                x, l = sol[:n], sol[n:]
            else:
                x, l = onp.linalg.solve(A, b), onp.zeros(0)
            cv = G @ x - h
            if onp.all(cv >= -feas_tol * scale) and onp.all(l >= -feas_tol * scale):
                lam = onp.zeros(m)
                lam[S] = onp.maximum(l, 0.0)
                count += 1
                if best is None:
                    best = (x, lam)
    if best is None:
        return None, None, 0
    return best[0], best[1], count
