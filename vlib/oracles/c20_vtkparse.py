"""Independent strict reader for legacy-VTK ASCII unstructured grids (C20 oracle).

Nothing in here knows how optimism.VTKWriter lays a file out: the reader implements the
"Simple Legacy Formats" grammar for `DATASET UNSTRUCTURED_GRID` (file version 2.0/3.0) as a
token stream with every declared count enforced.

    line 1   # vtk DataFile Version x.y
    line 2   title (<= 256 characters)
    line 3   ASCII
    then     DATASET UNSTRUCTURED_GRID
             POINTS n dataType             3n numbers
             CELLS n size                  n records "k i_1 .. i_k", exactly `size` integers in total
             CELL_TYPES n                  n integers
             [POINT_DATA n | CELL_DATA n]  each at most once, followed by attribute arrays
                 SCALARS name dataType [numComp]  LOOKUP_TABLE tableName   n*numComp numbers
                 VECTORS name dataType            3n numbers
                 TENSORS name dataType            9n numbers

Fatal defects raise VTKFormatError(clause, message); defects after which the rest of the file can still
be read unambiguously (a number that is not a literal of the declared data type, e.g. "5.0" in an
`unsigned_long` array) are collected in result["soft_errors"] so that they cannot mask anything else.
"""
import re

import numpy as onp

SECTION_KW = ("POINTS", "CELLS", "CELL_TYPES", "POINT_DATA", "CELL_DATA")
ATTR_KW = ("SCALARS", "VECTORS", "TENSORS", "NORMALS", "TEXTURE_COORDINATES", "FIELD", "COLOR_SCALARS", "LOOKUP_TABLE")
KEYWORDS = set(SECTION_KW) | set(ATTR_KW) | {"DATASET", "METADATA"}

INT_RANGE = {
    "bit": (0, 1),
    "unsigned_char": (0, 2 ** 8 - 1), "char": (-2 ** 7, 2 ** 7 - 1),
    "unsigned_short": (0, 2 ** 16 - 1), "short": (-2 ** 15, 2 ** 15 - 1),
    "unsigned_int": (0, 2 ** 32 - 1), "int": (-2 ** 31, 2 ** 31 - 1),
    "unsigned_long": (0, 2 ** 64 - 1), "long": (-2 ** 63, 2 ** 63 - 1),
}
FLOAT_TYPES = ("float", "double")
DATA_TYPES = set(INT_RANGE) | set(FLOAT_TYPES)

# nodes per cell for the linear / quadratic cell types of the legacy format
CELL_NODES = {1: 1, 3: 2, 5: 3, 9: 4, 10: 4, 21: 3, 22: 6, 23: 8, 24: 10}

_INT_RE = re.compile(r"^[+-]?\d+$")
_FLT_RE = re.compile(r"^[+-]?(\d+\.?\d*|\.\d+)([eE][+-]?\d+)?$")
_HDR_RE = re.compile(r"^# vtk DataFile Version \d+\.\d+\s*$")


class VTKFormatError(Exception):
    def __init__(self, clause, message, context=None):
        Exception.__init__(self, "%s: %s" % (clause, message))
        self.clause = clause
        self.message = message
        self.context = context or {}


class _Tokens:
    def __init__(self, lines, first_line_no):
        self.toks = []
        for k, line in enumerate(lines):
            for t in line.split():
                self.toks.append((t, first_line_no + k))
        self.i = 0

    def peek(self):
        return self.toks[self.i][0] if self.i < len(self.toks) else None

    def line(self):
        j = min(self.i, len(self.toks) - 1)
        return self.toks[j][1] if self.toks else 0

    def next(self, what, clause="grammar"):
        if self.i >= len(self.toks):
            raise VTKFormatError(clause, "unexpected end of file, expected %s" % what)
        t = self.toks[self.i][0]
        self.i += 1
        return t

    def expect_kw(self, kw, clause="grammar", after=None):
        t = self.peek()
        if t != kw:
            if t is not None and (_FLT_RE.match(t) or _INT_RE.match(t)) and after:
                raise VTKFormatError("record_count", "more numbers than declared after %s (line %d: %r where %s was expected)"
                                     % (after, self.line(), t, kw), {"array": after, "kind": "too_many"})
            raise VTKFormatError(clause, "line %d: expected %s, found %r" % (self.line(), kw, t))
        self.i += 1

    def count(self, what, clause="grammar"):
        t = self.next(what, clause)
        if not _INT_RE.match(t) or int(t) < 0:
            raise VTKFormatError(clause, "line %d: %s must be a non-negative integer, found %r" % (self.line(), what, t))
        return int(t)


def _read_numbers(tk, n, dtype, owner, soft, section):
    """n numbers of the declared legacy data type; keyword/EOF before n numbers is a count error."""
    out = [None] * n
    integral = dtype in INT_RANGE
    degraded = False
    for k in range(n):
        t = tk.peek()
        if t is None or t in KEYWORDS:
            raise VTKFormatError("record_count", "%s: %d numbers declared, only %d present (line %d: %r)"
                                 % (owner, n, k, tk.line(), t), {"array": owner, "kind": "too_few", "section": section})
        tk.i += 1
        if integral:
            if _INT_RE.match(t):
                v = int(t)
                lo, hi = INT_RANGE[dtype]
                if not (lo <= v <= hi):
                    soft.append({"clause": "value_token_type", "array": owner, "section": section, "dtype": dtype,
                                 "token": t, "why": "out of range for %s" % dtype})
                out[k] = v
            elif _FLT_RE.match(t):
                if not degraded:
                    soft.append({"clause": "value_token_type", "array": owner, "section": section, "dtype": dtype, "token": t,
                                 "why": "floating-point literal in an array declared %s" % dtype})
                    degraded = True
                out[k] = float(t)
            else:
                raise VTKFormatError("value_token_type", "%s: line %d: %r is not a number" % (owner, tk.line(), t),
                                     {"array": owner, "section": section})
        else:
            if _FLT_RE.match(t):
                out[k] = float(t)
            else:
                raise VTKFormatError("value_token_type", "%s: line %d: %r is not a finite decimal literal" % (owner, tk.line(), t),
                                     {"array": owner, "section": section})
    return out, degraded


def _read_attributes(tk, n, soft, section):
    arrays = {}
    order = []
    last = "%s header" % section
    while True:
        t = tk.peek()
        if t is None or t in ("POINT_DATA", "CELL_DATA"):
            return arrays, order
        if t in ("SCALARS", "VECTORS", "TENSORS"):
            tk.i += 1
            name = tk.next("array name")
            dtype = tk.next("data type")
            if name in KEYWORDS or _FLT_RE.match(name):
                raise VTKFormatError("grammar", "line %d: bad array name %r" % (tk.line(), name))
            if dtype not in DATA_TYPES:
                raise VTKFormatError("grammar", "line %d: unknown data type %r for array %s" % (tk.line(), dtype, name))
            ncomp = {"SCALARS": 1, "VECTORS": 3, "TENSORS": 9}[t]
            if t == "SCALARS":
                p = tk.peek()
                if p is not None and _INT_RE.match(p):
                    ncomp = int(p)
                    tk.i += 1
                    if not 1 <= ncomp <= 4:
                        raise VTKFormatError("grammar", "SCALARS %s: numComp %d outside 1..4" % (name, ncomp))
                tk.expect_kw("LOOKUP_TABLE", after=None)
                tk.next("lookup table name")
            if name in arrays:
                raise VTKFormatError("grammar", "duplicate array name %r in %s" % (name, section))
            owner = "%s %s/%s" % (t, section, name)
            vals, degraded = _read_numbers(tk, n * ncomp, dtype, owner, soft, section)
            arrays[name] = {"kind": t, "dtype": dtype, "ncomp": ncomp, "values": vals, "degraded": degraded}
            order.append(name)
            last = owner
        else:
            if _FLT_RE.match(t) or _INT_RE.match(t):
                raise VTKFormatError("record_count", "more numbers than declared after %s (line %d: %r)" % (last, tk.line(), t),
                                     {"array": last, "kind": "too_many", "section": section})
            raise VTKFormatError("grammar", "line %d: unexpected token %r in %s" % (tk.line(), t, section))


def parse_text(text):
    lines = text.split("\n")
    if len(lines) < 4:
        raise VTKFormatError("header", "fewer than 4 lines")
    if not _HDR_RE.match(lines[0]):
        raise VTKFormatError("header", "bad version line %r" % lines[0][:80])
    if len(lines[1]) > 256:
        raise VTKFormatError("header", "title longer than 256 characters")
    if lines[2].strip() != "ASCII":
        raise VTKFormatError("header", "line 3 must be ASCII (the reader handles ASCII files only), found %r" % lines[2][:40])
    tk = _Tokens(lines[3:], 4)
    soft = []
    tk.expect_kw("DATASET", "header")
    kind = tk.next("dataset type", "header")
    if kind != "UNSTRUCTURED_GRID":
        raise VTKFormatError("header", "dataset type %r" % kind)

    tk.expect_kw("POINTS")
    npts = tk.count("POINTS count")
    ptype = tk.next("POINTS data type")
    if ptype not in DATA_TYPES:
        raise VTKFormatError("grammar", "unknown POINTS data type %r" % ptype)
    pvals, _ = _read_numbers(tk, 3 * npts, ptype, "POINTS", soft, "POINTS")
    points = [pvals[3 * i:3 * i + 3] for i in range(npts)]

    tk.expect_kw("CELLS", after="POINTS")
    ncells = tk.count("CELLS count")
    size = tk.count("CELLS size")
    cells = []
    used = 0
    for c in range(ncells):
        t = tk.peek()
        if t is None or t in KEYWORDS:
            raise VTKFormatError("record_count", "CELLS: %d cells declared, only %d present" % (ncells, c),
                                 {"array": "CELLS", "kind": "too_few"})
        k = tk.count("cell node count")
        if k < 1:
            raise VTKFormatError("grammar", "cell %d has %d nodes" % (c, k))
        row = []
        for _ in range(k):
            t = tk.peek()
            if t is None or t in KEYWORDS:
                raise VTKFormatError("record_count", "CELLS: cell %d truncated" % c, {"array": "CELLS", "kind": "too_few"})
            tk.i += 1
            if not _INT_RE.match(t):
                raise VTKFormatError("value_token_type", "CELLS: line %d: %r is not an integer" % (tk.line(), t), {"array": "CELLS"})
            row.append(int(t))
        used += k + 1
        cells.append(row)
    if used != size:
        raise VTKFormatError("cells_size", "CELLS declares size %d but the %d records hold %d integers" % (size, ncells, used),
                             {"declared": size, "present": used})
    tk.expect_kw("CELL_TYPES", after="CELLS")
    ntypes = tk.count("CELL_TYPES count")
    if ntypes != ncells:
        raise VTKFormatError("cell_types_count", "CELL_TYPES %d != CELLS %d" % (ntypes, ncells))
    tvals, _ = _read_numbers(tk, ntypes, "int", "CELL_TYPES", soft, "CELL_TYPES")
    for c, (ty, row) in enumerate(zip(tvals, cells)):
        if ty not in CELL_NODES:
            raise VTKFormatError("cell_type", "cell %d: unsupported cell type %r" % (c, ty))
        if CELL_NODES[ty] != len(row):
            raise VTKFormatError("cell_type", "cell %d: type %d needs %d nodes, record has %d" % (c, ty, CELL_NODES[ty], len(row)),
                                 {"cell": c, "type": ty, "nodes": len(row)})
        for i in row:
            if not 0 <= i < npts:
                raise VTKFormatError("connectivity_range", "cell %d refers to point %d, file has %d points" % (c, i, npts),
                                     {"cell": c, "index": i, "npoints": npts})

    out = {"npoints": npts, "points_dtype": ptype, "points": points, "cells": cells, "cell_types": tvals,
           "point_data": None, "cell_data": None, "point_order": [], "cell_order": [], "soft_errors": soft}
    last = "CELL_TYPES"
    while tk.peek() is not None:
        t = tk.peek()
        if t == "POINT_DATA":
            if out["point_data"] is not None:
                raise VTKFormatError("grammar", "second POINT_DATA section")
            tk.i += 1
            n = tk.count("POINT_DATA count")
            if n != npts:
                raise VTKFormatError("point_data_count", "POINT_DATA %d != POINTS %d" % (n, npts), {"declared": n, "points": npts})
            out["point_data"], out["point_order"] = _read_attributes(tk, n, soft, "POINT_DATA")
            last = "POINT_DATA"
        elif t == "CELL_DATA":
            if out["cell_data"] is not None:
                raise VTKFormatError("grammar", "second CELL_DATA section")
            tk.i += 1
            n = tk.count("CELL_DATA count")
            if n != ncells:
                raise VTKFormatError("cell_data_count", "CELL_DATA %d != CELLS %d" % (n, ncells), {"declared": n, "cells": ncells})
            out["cell_data"], out["cell_order"] = _read_attributes(tk, n, soft, "CELL_DATA")
            last = "CELL_DATA"
        elif _FLT_RE.match(t) or _INT_RE.match(t):
            raise VTKFormatError("record_count", "more numbers than declared after %s (line %d: %r)" % (last, tk.line(), t),
                                 {"array": last, "kind": "too_many"})
        else:
            raise VTKFormatError("grammar", "line %d: unexpected token %r after %s" % (tk.line(), t, last))
    return out


def parse_file(path):
    with open(path, "r", newline="") as f:
        text = f.read()
    if "\r" in text:
        raise VTKFormatError("header", "carriage returns in an ASCII legacy file")
    return parse_text(text)


NUMPY_OF = {
    "bit": onp.uint8, "unsigned_char": onp.uint8, "char": onp.int8, "unsigned_short": onp.uint16, "short": onp.int16,
    "unsigned_int": onp.uint32, "int": onp.int32, "unsigned_long": onp.uint64, "long": onp.int64,
    "float": onp.float32, "double": onp.float64,
}


# ------------------------------------------------------------------------------------------------------- self-test
# A file written by hand after the example in the VTK file-format document (not produced by the code under test) and
# one-edit corruptions of it: the reader must accept the former and name the defect of each of the latter.

_GOOD = """# vtk DataFile Version 2.0
Unstructured Grid Example
ASCII
DATASET UNSTRUCTURED_GRID
POINTS 5 float
0 0 0  1 0 0  2 0 0
0 1 0  1 1 0
CELLS 3 11
3 0 1 3
3 1 4 3
2 1 2
CELL_TYPES 3
5
5
3
POINT_DATA 5
SCALARS scalars float 1
LOOKUP_TABLE default
0.0 1.0 2.0 3.0 4.0
VECTORS vectors float
1 0 0  1 1 0  0 2 0  1 0 0  1 1 0
TENSORS t double
1 0 0 0 1 0 0 0 1   1 0 0 0 1 0 0 0 1   1 0 0 0 1 0 0 0 1   1 0 0 0 1 0 0 0 1   1 0 0 0 1 0 0 0 1e-3
CELL_DATA 3
SCALARS id int
LOOKUP_TABLE default
7 8 9
"""

_CORRUPTIONS = [
    ("POINTS 5 float", "POINTS 6 float", "record_count"),
    ("POINTS 5 float", "POINTS 4 float", "record_count"),
    ("CELLS 3 11", "CELLS 3 12", "cells_size"),
    ("3 1 4 3", "3 1 5 3", "connectivity_range"),
    ("CELL_TYPES 3", "CELL_TYPES 2", "cell_types_count"),
    ("5\n5\n3\n", "5\n22\n3\n", "cell_type"),
    ("POINT_DATA 5", "POINT_DATA 4", "point_data_count"),
    ("CELL_DATA 3", "CELL_DATA 4", "cell_data_count"),
    ("7 8 9", "7 8 9 10", "record_count"),
    ("7 8 9", "7 8", "record_count"),
    ("0.0 1.0 2.0 3.0 4.0", "0.0 1.0 2.0 3.0 nan", "value_token_type"),
    ("LOOKUP_TABLE default\n7", "7", "grammar"),
    ("ASCII", "BINARY", "header"),
    ("# vtk DataFile Version 2.0", "# vtk datafile", "header"),
    ("VECTORS vectors float", "VECTORS vectors real", "grammar"),
    ("SCALARS id int", "SCALARS scalars int", None),            # same name in another section is legal
    ("CELL_DATA 3\nSCALARS id int", "POINT_DATA 5\nSCALARS id int", "grammar"),
]


def selftest():
    """Returns a list of failure descriptions (empty = the reader behaves as specified on the hand-written files)."""
    fails = []
    try:
        p = parse_text(_GOOD)
        if not (p["npoints"] == 5 and p["cells"] == [[0, 1, 3], [1, 4, 3], [1, 2]] and p["cell_types"] == [5, 5, 3]
                and p["point_data"]["vectors"]["values"][3:6] == [1.0, 1.0, 0.0] and p["point_data"]["t"]["values"][-1] == 1e-3
                and p["cell_data"]["id"]["values"] == [7, 8, 9] and not p["soft_errors"] and p["points"][2] == [2.0, 0.0, 0.0]):
            fails.append("hand-written file parsed to the wrong content")
    except VTKFormatError as e:
        fails.append("hand-written valid file rejected: %s" % e)
    for old, new, clause in _CORRUPTIONS:
        assert old in _GOOD
        try:
            p = parse_text(_GOOD.replace(old, new, 1))
            got = None
        except VTKFormatError as e:
            got = e.clause
        if got != clause:
            fails.append("corruption %r -> %r: expected %s, got %s" % (old, new, clause, got))
    # a float literal in an integer array is reported without stopping the read
    p = parse_text(_GOOD.replace("7 8 9", "7 8.0 9"))
    if not (len(p["soft_errors"]) == 1 and p["soft_errors"][0]["clause"] == "value_token_type" and p["cell_data"]["id"]["values"] == [7, 8.0, 9]):
        fails.append("soft error for a float literal in an int array not reported")
    return fails
