"""C11 reference quantities (numpy only, independent of optimism).

* equilibrium (compressible neo-Hookean) energy W_eq(H) of the viscoelastic models, term magnitudes for rounding bounds,
* Hencky strain of a branch, stored non-equilibrium energy sum_i G_i |dev Ee_i|^2 from the *state*,
* closed forms of the two virgin limits: instantaneous  W_eq + sum_i G_i |dev E|^2  and equilibrium  W_eq,
* (diagnostic only) the documented backward-Euler / exponential-map update, to report how far the library is from it.
"""
import numpy as onp
import scipy.linalg

from vlib.oracles.c09_numpy import symf, dev, fro, spectral_info, d8_class, EPS, I3  # noqa: F401  (own helpers of the same author)


class Model:
    def __init__(self, nbranch, consts):
        self.nb = int(nbranch)
        self.K = float(consts["K"])
        self.G = float(consts["G"])
        self.Gn = [float(g) for g in consts["Gn"]]
        self.tau = [float(t) for t in consts["tau"]]
        assert len(self.Gn) == self.nb and len(self.tau) == self.nb

    # equilibrium part -----------------------------------------------------
    def w_eq(self, H):
        F = onp.asarray(H, dtype=float) + I3
        J = float(onp.linalg.det(F))
        I1bar = J ** (-2.0 / 3.0) * float(onp.sum(F * F))
        return 0.5 * self.G * (I1bar - 3.0) + 0.5 * self.K * (0.5 * J * J - 0.5 - onp.log(J))

    def w_eq_magnitude(self, H):
        """Sum of the magnitudes of the terms of W_eq (rounding bound of any evaluation of it)."""
        F = onp.asarray(H, dtype=float) + I3
        J = float(onp.linalg.det(F))
        I1bar = J ** (-2.0 / 3.0) * float(onp.sum(F * F))
        return 0.5 * self.G * (I1bar + 3.0) + 0.5 * self.K * (0.5 * J * J + 0.5 + abs(onp.log(J)))

    # branches -------------------------------------------------------------
    def branch_states(self, st):
        st = onp.asarray(st, dtype=float)
        return [st[9 * i:9 * i + 9].reshape(3, 3) for i in range(self.nb)]

    @staticmethod
    def hencky(H, Fv):
        F = onp.asarray(H, dtype=float) + I3
        Fe = F @ onp.linalg.inv(Fv)
        return 0.5 * symf(Fe.T @ Fe, onp.log), Fe.T @ Fe

    def stored_neq(self, H, st):
        """(sum_i G_i |dev Ee_i|^2, per-branch list, rounding bound)."""
        per, rb = [], 0.0
        for G, Fv in zip(self.Gn, self.branch_states(st)):
            Ee, _ = self.hencky(H, Fv)
            d = float(fro(dev(Ee)))
            per.append(G * d * d)
            cond = float(onp.linalg.norm(Fv, 2) * onp.linalg.norm(onp.linalg.inv(Fv), 2))
            ea = 50 * EPS * (1.0 + float(fro(Ee))) * cond      # absolute rounding of the strain measure (x safety)
            rb += 2 * G * d * ea + G * ea * ea + 8 * EPS * G * d * d
        return float(sum(per)), per, rb

    def neq_scale_virgin(self, H):
        Ee, _ = self.hencky(H, I3)
        d2 = float(fro(dev(Ee))) ** 2
        return sum(self.Gn) * d2, d2

    # documented scheme (diagnostic) -----------------------------------------
    def reference_update(self, H, st, dt):
        out, diss = [], 0.0
        for G, tau, Fv in zip(self.Gn, self.tau, self.branch_states(st)):
            Ee, _ = self.hencky(H, Fv)
            dEv = dt / tau / (1.0 + dt / tau) * dev(Ee)
            out.append((scipy.linalg.expm(dEv) @ Fv).ravel())
            diss += G * tau * float(fro(dEv)) ** 2 / dt
        return onp.concatenate(out), diss
