"""C09 reference model (numpy only, independent of optimism).

* small tensor helpers (batched symmetric matrix functions through numpy.linalg.eigh),
* the J2 *specification*: closed-form hardening laws (flow stress, stored energy, rate overstress and its
  potential), elastic strain measures, Mises stress, and the incremental potential of the variational update as a
  function of an arbitrary admissible plastic increment (deviatoric symmetric tensor D, eqps = eqps_old +
  sqrt(2/3)|D|, Fp = exp(D) Fp_old  or  eps_p = eps_p_old + D),
* spectral classification used by the D8 (batched eigen-solver) known-finding classifier.

Nothing here looks at Hardening.py / J2Plastic.py.
"""
import math

import numpy as onp

EPS = float(onp.finfo(float).eps)
SQ32 = math.sqrt(1.5)
SQ23 = math.sqrt(2.0 / 3.0)
I3 = onp.eye(3)
TOL_SOLVER = 1e-10  # J2Plastic._TOLERANCE (documented yield/solver tolerance, relative to Y0)


# ------------------------------------------------------------------ tensors

def symf(A, f):
    """f(A) for (a stack of) symmetric 3x3 matrices."""
    A = 0.5 * (A + onp.swapaxes(A, -1, -2))
    w, V = onp.linalg.eigh(A)
    return onp.einsum("...ik,...k,...jk->...ij", V, f(w), V)


def dev(A):
    tr = onp.trace(A, axis1=-2, axis2=-1)
    return A - tr[..., None, None] / 3.0 * I3


def fro(A):
    return onp.sqrt(onp.sum(A * A, axis=(-2, -1)))


def log_strain_from_Ce(Ce):
    return 0.5 * symf(Ce, onp.log)


def expm_sym(D):
    return symf(D, onp.exp)


def spectral_info(A):
    """(relative min eigenvalue gap, axis_aligned?, relative spread) of a symmetric tensor."""
    A = 0.5 * (A + A.T)
    nA = float(onp.max(onp.abs(A)))
    if nA == 0.0:
        return 0.0, True, 0.0
    w = onp.linalg.eigvalsh(A)
    sc = max(abs(w[0]), abs(w[2]))
    gap = float(min(w[1] - w[0], w[2] - w[1]) / sc)
    off = float(max(abs(A[0, 1]), abs(A[0, 2]), abs(A[1, 2])))
    # axis aligned = exactly diagonal: with a repeated pair, off-diagonal rounding noise of any size decides the eigen-frame
    return gap, bool(off == 0.0), float((w[2] - w[0]) / sc)


def d8_class(infos):
    """D8 key: some eigen-solver input has a (nearly) repeated eigenvalue PAIR in a non-axis-aligned frame: the two closest
    eigenvalues differ by < 1e-8 |lambda|_max (their eigenvectors are rounding noise) and are much closer to each other than
    to the third one (gap < 1e-3 * spread; a numerically *triple* eigenvalue, where every frame is an eigen-frame, is not
    in the class)."""
    return any(g < 1e-8 and g < 1e-3 * sp and not ax for g, ax, sp in infos)


# ------------------------------------------------------------------ hardening laws (closed forms)

class Law:
    """Harness's own closed-form hardening law. consts: dict with E, nu, Y0 and the law's parameters."""

    def __init__(self, hard, rate, consts):
        self.hard = hard
        self.rate = bool(rate)
        c = consts
        self.E, self.nu, self.Y0 = float(c["E"]), float(c["nu"]), float(c["Y0"])
        self.mu = 0.5 * self.E / (1.0 + self.nu)
        self.kappa = self.E / 3.0 / (1.0 - 2.0 * self.nu)
        if hard == "linear":
            self.H = float(c["H"])
        elif hard == "voce":
            self.Ysat, self.eps0 = float(c["Ysat"]), float(c["eps0"])
        elif hard == "power":
            self.n, self.eps0 = float(c["n"]), float(c["eps0"])
        else:
            raise ValueError(hard)
        if self.rate:
            self.S, self.m, self.ed0 = float(c["S"]), float(c["m"]), float(c["epsDot0"])

    # static part
    def flow_static(self, e):
        e = onp.asarray(e, dtype=float)
        if self.hard == "linear":
            return self.Y0 + self.H * e
        if self.hard == "voce":
            return self.Ysat - (self.Ysat - self.Y0) * onp.exp(-e / self.eps0)
        return self.Y0 * (1.0 + e / self.eps0) ** (1.0 / self.n)

    def slope_static(self, e):
        if self.hard == "linear":
            return self.H
        if self.hard == "voce":
            return (self.Ysat - self.Y0) / self.eps0 * math.exp(-e / self.eps0)
        return self.Y0 / (self.n * self.eps0) * (1.0 + e / self.eps0) ** (1.0 / self.n - 1.0)

    def energy_static_diff(self, e1, e0):
        """stored hardening energy(e1) - energy(e0), evaluated without cancellation of the large common part."""
        e1 = onp.asarray(e1, dtype=float)
        d = e1 - e0
        if self.hard == "linear":
            return self.Y0 * d + 0.5 * self.H * d * (e1 + e0)
        if self.hard == "voce":
            # Ysat*e + (Ysat-Y0)*eps0*expm1(-e/eps0)
            return self.Ysat * d + (self.Ysat - self.Y0) * self.eps0 * math.exp(-e0 / self.eps0) * onp.expm1(-d / self.eps0)
        A = self.n * self.Y0 * self.eps0 / (1.0 + self.n)
        p = (self.n + 1.0) / self.n
        x0 = 1.0 + e0 / self.eps0
        # (x0 + d/eps0)^p - x0^p = x0^p * expm1(p*log1p(d/(eps0*x0)))
        return A * x0 ** p * onp.expm1(p * onp.log1p(d / (self.eps0 * x0)))

    def energy_static(self, e):
        return float(self.energy_static_diff(e, 0.0))

    # rate part (power-law rate sensitivity), as a function of the increment de over dt
    def over(self, de, dt):
        if not self.rate:
            return 0.0 * onp.asarray(de, dtype=float)
        de = onp.maximum(onp.asarray(de, dtype=float), 0.0)
        return self.S * (de / dt / self.ed0) ** (1.0 / self.m)

    def rate_potential(self, de, dt):
        if not self.rate:
            return 0.0 * onp.asarray(de, dtype=float)
        de = onp.maximum(onp.asarray(de, dtype=float), 0.0)
        return self.m / (self.m + 1.0) * self.S * self.ed0 * dt * (de / dt / self.ed0) ** ((self.m + 1.0) / self.m)

    def flow_dynamic(self, e_new, de, dt):
        return self.flow_static(e_new) + self.over(de, dt)


# ------------------------------------------------------------------ kinematics / state decoding

def split_state(st):
    st = onp.asarray(st, dtype=float)
    return float(st[0]), st[1:10].reshape(3, 3)


def trial_quantities(kin, H, plastic_old):
    """Returns dict with what the spec needs at the trial state.  kin: 'large'|'small'."""
    H = onp.asarray(H, dtype=float)
    if kin == "large":
        F = H + I3
        Fe = F @ onp.linalg.inv(plastic_old)
        Ce = Fe.T @ Fe
        Ee = log_strain_from_Ce(Ce)
        return {"F": F, "Ce": Ce, "Ee": Ee, "devEe": dev(Ee)}
    if kin == "sethhill":
        # Seth-Hill strain with m = 1/4 (the library's 'seth hill' option): (C^m - I)/(2m), C = F^T F, additive plastic strain
        F = H + I3
        C = F.T @ F
        Ee = 2.0 * (symf(C, lambda w: w ** 0.25) - I3) - plastic_old
        return {"F": F, "Ce": C, "Ee": Ee, "devEe": dev(Ee)}
    Ee = 0.5 * (H + H.T) - plastic_old
    return {"F": H + I3, "Ce": None, "Ee": Ee, "devEe": dev(Ee)}


def elastic_dev_strain(kin, H, plastic):
    return trial_quantities(kin, H, plastic)["devEe"]


def mises_of_dev_strain(mu, devEe):
    return 2.0 * mu * SQ32 * fro(devEe)


def mises_of_stress(kin, P, H):
    """Mises invariant of the Kirchhoff stress P F^T (large) or of P (small)."""
    P = onp.asarray(P, dtype=float)
    tau = P @ (onp.asarray(H, dtype=float) + I3).T if kin == "large" else P
    tau = 0.5 * (tau + tau.T)
    d = dev(tau)
    return float(SQ32 * fro(d))


def recover_increment(kin, plastic_old, plastic_new):
    """Plastic increment tensor D implied by two consecutive states, and its asymmetry defect."""
    if kin != "large":
        D = plastic_new - plastic_old
        return 0.5 * (D + D.T), float(fro(D - D.T))
    X = plastic_new @ onp.linalg.inv(plastic_old)     # should be exp(D), symmetric positive definite
    asym = float(fro(X - X.T))
    Xs = 0.5 * (X + X.T)
    w, V = onp.linalg.eigh(Xs)
    if onp.min(w) <= 0:
        return onp.full((3, 3), onp.nan), asym
    return (V * onp.log(w)) @ V.T, asym


def dev_energy_of_candidates(kin, mu, tq, D):
    """mu*|dev Ee(D)|^2 for a stack of admissible plastic increments D (n,3,3)."""
    if kin != "large":
        return mu * fro(tq["devEe"][None] - D) ** 2
    X = expm_sym(-D)
    Ce = onp.einsum("nij,jk,nkl->nil", X, tq["Ce"], X)
    Ee = log_strain_from_Ce(Ce)
    return mu * fro(dev(Ee)) ** 2


def random_unit_deviators(rng, n, form):
    """n random symmetric deviatoric unit (Frobenius) tensors; form 'block' keeps the 2+1 block structure."""
    A = rng.standard_normal((n, 3, 3))
    A = 0.5 * (A + onp.swapaxes(A, 1, 2))
    if form != "3d":
        A[:, 2, :2] = 0.0
        A[:, :2, 2] = 0.0
    A = dev(A)
    return A / fro(A)[:, None, None]


# ------------------------------------------------------------------ honest-failure signature of the root finder (finding C09-N1)

def rootfind_budget_signature(law, trial, e_old, dt, max_iters=50, noise=0.0):
    """Structural signature for "the scalar root finder cannot resolve the root within its budget" (findings C09-N1/N2).

    Spec residual along the return direction: g(D) = 3 mu D - (trial - Y(e_old + D)) + overstress(D/dt), D in (0, W],
    W the library's bracket width.  Its root D* is located here by bisection on a log scale (independent of rtsafe).
    dx = r_tol / g'(D*) is the half-width of the set of points that meet the residual tolerance.  The documented
    budget (50 Newton/bisection iterations, x_tol = 0) cannot be expected to succeed when that set is narrower than
    one floating-point spacing at eqps_old + D* (no representable solution: rate-sensitive overstress with its infinite
    slope at D = 0, or eqps so large relative to the yield strain that 3 mu * ulp(eqps) > r_tol) or than 2^-max_iters of
    the bracket (more halvings than the budget allows).
    `noise` is the rounding bound of the trial stress: a trial state that the reference sees inside the yield tolerance by
    less than that may be seen as barely yielding by the library.
    """
    mu, Y0 = law.mu, law.Y0
    Yold = float(law.flow_static(e_old))
    over0 = trial - Yold
    if over0 <= TOL_SOLVER * Y0:
        if over0 < -noise:
            return {"match": False, "why": "not yielding", "rate": law.rate}
        over0 = TOL_SOLVER * Y0 * (1.0 + 1e-6)          # barely yielding, to within the rounding of the trial stress
        trial = Yold + over0
    W = (over0 + 10 * TOL_SOLVER * Y0) / (3 * mu)

    def g(D):
        return 3 * mu * D - (trial - float(law.flow_static(e_old + D))) + float(law.over(D, dt))
    lo, hi = -320.0, math.log10(W)
    if g(10.0 ** lo) > 0:
        Dstar = 10.0 ** lo
    else:
        for _ in range(200):
            mid = 0.5 * (lo + hi)
            if g(10.0 ** mid) > 0:
                hi = mid
            else:
                lo = mid
        Dstar = 10.0 ** hi
    slope = 3 * mu + float(law.slope_static(e_old + Dstar)) + (float(law.over(Dstar, dt)) / (law.m * Dstar) if law.rate else 0.0)
    dx = TOL_SOLVER * Y0 / slope
    spacing = float(onp.spacing(e_old + Dstar))
    n_needed = math.log2(W / dx) if dx > 0 else float("inf")
    unrepresentable = dx < spacing
    match = bool(unrepresentable or (law.rate and n_needed >= float(max_iters)))
    # The library's bracket is [eqps_old, eqps_old + W]; the root sits at D*, leaving the margin W - D* beyond it: the D16 pad
    # 10*tol*Y0/(3 mu) (an absolute strain) plus the hardening contribution.  Once that margin is below a few float spacings
    # of eqps (flat hardening and eqps/(Y0/3mu) >~ 5e6) the computed upper end can fall short of the root, both residuals
    # have the same sign and find_root returns NaN (finding C09-N4); `bracket_floats` = margin in float spacings.
    bracket_floats = (W - Dstar) / float(onp.spacing(max(e_old + W, 1e-300)))
    return {"match": match, "rate": law.rate, "bracket_floats": bracket_floats, "root_increment": Dstar, "bracket_width": W, "tolerance_band_halfwidth": dx,
            "spacing_at_root": spacing, "bisections_needed": n_needed, "unrepresentable": bool(unrepresentable)}
