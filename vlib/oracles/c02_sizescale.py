"""C02 — helper classes run by props/c02_stiffness.py (same property, split out for readability):

size_hvp    meshes with ~1100 / ~2200 / ~4300 distorted linear triangles (just above 1024 / 2048 / 4096: plausible batch, block or
            chunk sizes), statics and Newmark on the same function space.  The dense Hessian is out of reach there, so the oracle is
            the Hessian-vector product jvp(grad E)(v) evaluated by the harness, compared with K v ROW BY ROW (each row against
            its own gross scale (|K||v|)_i, so a local error cannot hide in a global norm) for random dense vectors and for
            vectors supported on single elements (first, middle, last, and the elements around every multiple of 1024);
            symmetry entry-wise on the sparse matrix and as v^T K w = w^T K v.
scale       one small configuration re-built with all moduli (and the density) multiplied by 2^k, k over +-30 decades.  Power-of-two
            factors commute with rounding, so K must scale EXACTLY (allowed: 8 ulp per entry), the stored sparsity pattern must
            not change, and at every scale K must equal the dense Hessian entry by entry relative to sqrt(rowmax_i rowmax_j).
"""
import math

import numpy as onp

from vlib.common import rng_of, EPS
from vlib.gen import c02_configs as cfg

TOL_ROW = 1e-10
TOL_ENTRY = 1e-10


def entrywise_worst(K, H, tol):
    """worst |K-H|_ij against tol*sqrt(rowmax_i(H) rowmax_j(H)); returns (observed, allowed, (i, j))."""
    rm = onp.max(onp.abs(H), axis=1) if H.size else onp.zeros(0)
    sc = tol * onp.sqrt(onp.outer(rm, rm))
    err = onp.abs(K - H)
    with onp.errstate(divide="ignore", invalid="ignore"):
        ratio = onp.where(sc > 0, err / sc, onp.where(err > 0, onp.inf, 0.0))
    ratio = onp.where(onp.isfinite(err), ratio, onp.inf)
    ij = onp.unravel_index(int(onp.argmax(ratio)), ratio.shape)
    return float(err[ij]), float(sc[ij]), (int(ij[0]), int(ij[1]))


def size_band(nE):
    for lim in (4096, 2048, 1024):
        if nE > lim:
            return ">%d" % lim
    return "<=1024"


def scale_band(k):
    d = k * math.log10(2.0)
    if d <= -20:
        return "<=1e-20"
    if d <= -10:
        return "1e-20..1e-10"
    if d < 0:
        return "1e-10..1"
    if d == 0:
        return "1"
    if d < 10:
        return "1..1e10"
    if d < 20:
        return "1e10..1e20"
    return ">=1e20"


# ====================================================================== size class

def run_size_case(case, res, helpers):
    import jax
    import jax.numpy as jnp
    from optimism import FunctionSpace, QuadratureRule, Mechanics, SparseMatrixAssembler
    from vlib.gen import meshes
    import contextlib
    import io

    _lib, _LibraryRaised, _scaled_field = helpers["_lib"], helpers["_LibraryRaised"], helpers["_scaled_field"]
    rng = rng_of(case["seed"])
    mesh = meshes.build(case["mesh"], rng_of(case["mesh"]["seed"]))
    X = onp.asarray(mesh.coords)
    conns = onp.asarray(mesh.conns)
    nN, nE = X.shape[0], conns.shape[0]
    areas = meshes.signed_areas(X, conns)
    if areas.min() <= 0:
        res.inconclusive("generator produced a degenerate element")
        return res
    band = size_band(nE)
    res.count("size_band:" + band)
    res.count("size_elements", nE)
    # one random BC subset (two node sets) besides the empty one
    m = rng.random((nN, 2)) < 0.1
    mesh = meshes.with_nodesets(mesh, {"sx": onp.flatnonzero(m[:, 0]), "sy": onp.flatnonzero(m[:, 1])})
    quad = QuadratureRule.create_quadrature_rule_on_triangle(degree=case["quad"])
    fs = FunctionSpace.construct_function_space(mesh, quad)
    geo = {"X": X, "conns": conns, "shapes": onp.asarray(fs.shapes), "shapeGrads": onp.asarray(fs.shapeGrads),
           "vols": onp.asarray(fs.vols), "order": 1, "h": float(math.sqrt(areas.mean()))}
    geo["vols2d"] = geo["vols"]
    mat_spec = case["material"]
    with contextlib.redirect_stdout(io.StringIO()):
        mat = cfg.build_material(mat_spec)
    dms = []
    for kind, ebcs in (("empty", []), ("random", [FunctionSpace.EssentialBC("sx", 0), FunctionSpace.EssentialBC("sy", 1)])):
        dm = FunctionSpace.DofManager(fs, 2, ebcs)
        want = m if kind == "random" else onp.zeros_like(m)
        if not onp.array_equal(onp.asarray(dm.isBc), want):
            res.violate("dofmanager_mask", {"bc": kind}, None)
            continue
        dms.append((kind, dm, onp.asarray(dm.unknownIndices)))

    # elements whose rows are probed individually: ends, middle, and both sides of every multiple of 1024
    probes = {0, 1, nE // 2, nE - 2, nE - 1}
    for b in range(1024, nE + 1, 1024):
        probes.update({b - 1, b, min(nE - 1, b + 1)})
    probes.update(int(e) for e in rng.integers(0, nE, size=4))
    probes = sorted(e for e in probes if 0 <= e < nE)

    U, dinfo = _scaled_field(rng, geo, float(rng.uniform(0.05, 0.2)), False, None)
    if U is None:
        res.inconclusive("could not scale a displacement to min det F > 0.3")
        return res
    res.ratio("hypothesis_min_detF(allowed/observed)", 0.3, dinfo["minJ_used"])
    Uj = jnp.array(U)

    for factory in case["factories"]:
        dyn = factory == "dynamics"
        try:
            if dyn:
                F = _lib(res, "create_dynamics_functions", Mechanics.create_dynamics_functions, fs, "plane strain", mat,
                         Mechanics.NewmarkParameters(gamma=case["gamma"], beta=case["beta"]))
                energy = lambda U_, UP_, st_, dt_: F.compute_algorithmic_energy(U_, UP_, st_, dt_)  # noqa: E731
                stiff = lambda U_, UP_, st_, dt_: F.compute_element_hessians(U_, UP_, st_, dt_)  # noqa: E731
                dt = 0.6 * geo["h"] * math.sqrt(mat_spec["density"] / mat_spec["E"]) * 10.0 ** rng.uniform(-0.7, 0.7)
                UPj = jnp.array(U + rng.standard_normal(U.shape) * geo["h"] * 0.05)
            else:
                F = _lib(res, "create_mechanics_functions", Mechanics.create_mechanics_functions, fs, "plane strain", mat)
                energy = lambda U_, UP_, st_, dt_: F.compute_strain_energy(U_, st_, dt_)  # noqa: E731
                stiff = lambda U_, UP_, st_, dt_: F.compute_element_stiffnesses(U_, st_, dt_)  # noqa: E731
                dt = 1.0
                UPj = Uj
            st = _lib(res, "compute_initial_state", F.compute_initial_state)
            grad = jax.grad(energy, 0)
            hvp = jax.jit(lambda U_, UP_, st_, dt_, V_: jax.jvp(lambda u: grad(u, UP_, st_, dt_), (U_,), (V_,))[1])
            Ke = _lib(res, "element_stiffnesses", stiff, Uj, UPj, st, dt)
        except _LibraryRaised:
            continue
        res.expect("element_stiffness_shape", tuple(Ke.shape) == (nE, 3, 2, 3, 2), {"shape": list(Ke.shape), "nE": nE})
        res.count("size_configs:%s:%s" % (factory, band))

        for kind, dm, unk in dms:
            try:
                K = _lib(res, "assemble_sparse_stiffness_matrix", SparseMatrixAssembler.assemble_sparse_stiffness_matrix, Ke, mesh.conns, dm)
            except _LibraryRaised:
                continue
            nu = unk.size
            if K.shape != (nu, nu):
                res.violate("stiffness_shape", {"K": list(K.shape), "n_unknown": nu}, None)
                continue
            K = K.tocsr()
            absK = abs(K)
            d2u = -onp.ones(2 * nN, int)
            d2u[unk] = onp.arange(nu)

            def Hv(vu):
                V = onp.zeros(2 * nN)
                V[unk] = vu
                out = onp.asarray(hvp(Uj, UPj, st, dt, jnp.array(V.reshape(nN, 2)))).ravel()
                return out[unk]

            def check(vu, label):
                kv = K @ vu
                hv = Hv(vu)
                gross = absK @ onp.abs(vu)
                allowed = TOL_ROW * (gross + onp.abs(hv)) + 1e-14 * float(onp.max(onp.abs(hv)))
                err = onp.abs(kv - hv)
                with onp.errstate(divide="ignore", invalid="ignore"):
                    ratio = onp.where(allowed > 0, err / allowed, onp.where(err > 0, onp.inf, 0.0))
                ratio = onp.where(onp.isfinite(err), ratio, onp.inf)
                i = int(onp.argmax(ratio))
                res.bound("hvp_rowwise", float(err[i]), float(allowed[i]),
                          {"vector": label, "row": i, "Kv": float(kv[i]), "Hv": float(hv[i]), "factory": factory, "bc": kind, "nE": nE, "band": band})
                res.count("hvp_checks")
                return kv

            vs = []
            for r in range(3):
                v = rng.standard_normal(nu)
                vs.append((v, check(v, "random%d" % r)))
                res.count("hvp_random_vectors")
            for e in probes:
                dofs = d2u[(2 * conns[e][:, None] + onp.arange(2)[None, :]).ravel()]
                dofs = dofs[dofs >= 0]
                if dofs.size == 0:
                    continue
                v = onp.zeros(nu)
                v[dofs] = rng.standard_normal(dofs.size)
                check(v, "element%d" % e)
                res.count("hvp_element_vectors")
                if e >= nE - 2:
                    res.count("hvp_last_element_vectors")
            # symmetry: entry-wise on the sparse matrix, and v^T K w = w^T K v
            D = (K - K.T).tocoo()
            rm = onp.asarray(absK.max(axis=1).todense()).ravel()
            if D.nnz:
                sc = TOL_ROW * onp.sqrt(rm[D.row] * rm[D.col])
                with onp.errstate(divide="ignore", invalid="ignore"):
                    ratio = onp.where(sc > 0, onp.abs(D.data) / sc, onp.where(D.data != 0, onp.inf, 0.0))
                j = int(onp.argmax(ratio))
                res.bound("symmetry_entrywise_sparse", float(abs(D.data[j])), float(sc[j]), {"factory": factory, "bc": kind, "nE": nE})
            else:
                res.bound("symmetry_entrywise_sparse", 0.0, 1.0)
            (v, kv), (w, kw) = vs[0], vs[1]
            res.bound("symmetry_vKw", abs(float(v @ kw - w @ kv)), TOL_ROW * float(onp.abs(v) @ (absK @ onp.abs(w))), {"factory": factory, "nE": nE})
            res.count("size_symmetry_checks")
            res.count("size_comparisons:" + band)
            if kind == "random":
                res.nontrivial = True
    return res


# ====================================================================== absolute-scale class

def run_scale_case(case, res, helpers):
    import jax
    import jax.numpy as jnp
    from optimism import FunctionSpace, QuadratureRule, Mechanics, SparseMatrixAssembler
    from vlib.gen import meshes
    import contextlib
    import io
    import copy

    _lib, _LibraryRaised, _scaled_field = helpers["_lib"], helpers["_LibraryRaised"], helpers["_scaled_field"]
    rng = rng_of(case["seed"])
    mesh = meshes.build(case["mesh"], rng_of(case["mesh"]["seed"]))
    X = onp.asarray(mesh.coords)
    conns = onp.asarray(mesh.conns)
    nN = X.shape[0]
    order = case["mesh"]["order"]
    m = rng.random((nN, 2)) < 0.2
    m[0, 0] = True
    mesh = meshes.with_nodesets(mesh, {"sx": onp.flatnonzero(m[:, 0]), "sy": onp.flatnonzero(m[:, 1])})
    quad = QuadratureRule.create_quadrature_rule_on_triangle(degree=case["quad"])
    fs = FunctionSpace.construct_function_space(mesh, quad)
    simplex = conns[:, onp.asarray(mesh.parentElement.vertexNodes)]
    geo = {"X": X, "conns": conns, "shapes": onp.asarray(fs.shapes), "shapeGrads": onp.asarray(fs.shapeGrads),
           "vols": onp.asarray(fs.vols), "order": order, "h": float(math.sqrt(onp.abs(meshes.signed_areas(X, simplex)).mean()))}
    geo["vols2d"] = geo["vols"]
    U, dinfo = _scaled_field(rng, geo, float(rng.uniform(0.03, 0.15)), False, None)
    if U is None:
        res.inconclusive("could not scale a displacement to min det F > 0.3")
        return res
    Uj = jnp.array(U)
    dyn = case["factory"] == "dynamics"
    base = case["material"]
    dms = [("empty", FunctionSpace.DofManager(fs, 2, [])),
           ("random", FunctionSpace.DofManager(fs, 2, [FunctionSpace.EssentialBC("sx", 0), FunctionSpace.EssentialBC("sy", 1)]))]
    dt = 0.6 * geo["h"] / order * math.sqrt(base.get("density", 1.0) / base["E"]) if dyn else 1.0   # invariant under the common scaling
    UPj = jnp.array(U + rng.standard_normal(U.shape) * geo["h"] * 0.05) if dyn else Uj
    res.count("scale_model:" + base["name"])
    res.count("scale_factory:" + case["factory"])

    ref = {}
    for k in [0] + [int(k) for k in case["ks"]]:
        spec = copy.deepcopy(base)
        f = 2.0 ** k
        spec["E"] = base["E"] * f                 # power of two: every derived modulus and the whole energy scale exactly
        if "density" in spec:
            spec["density"] = base["density"] * f
        with contextlib.redirect_stdout(io.StringIO()):
            mat = cfg.build_material(spec)
        try:
            if dyn:
                F = _lib(res, "create_dynamics_functions", Mechanics.create_dynamics_functions, fs, "plane strain", mat,
                         Mechanics.NewmarkParameters(gamma=case["gamma"], beta=case["beta"]))
                energy = lambda U_, F=F: F.compute_algorithmic_energy(U_, UPj, st, dt)  # noqa: E731
                st = _lib(res, "compute_initial_state", F.compute_initial_state)
                Ke = _lib(res, "element_stiffnesses", F.compute_element_hessians, Uj, UPj, st, dt)
            else:
                F = _lib(res, "create_mechanics_functions", Mechanics.create_mechanics_functions, fs, "plane strain", mat)
                energy = lambda U_, F=F: F.compute_strain_energy(U_, st, dt)  # noqa: E731
                st = _lib(res, "compute_initial_state", F.compute_initial_state)
                Ke = _lib(res, "element_stiffnesses", F.compute_element_stiffnesses, Uj, st, dt)
            H = onp.asarray(_lib(res, "hessian_of_energy", jax.jit(jax.hessian(energy)), Uj)).reshape(2 * nN, 2 * nN)
        except _LibraryRaised:
            continue
        if not onp.all(onp.isfinite(H)):
            res.count("nonfinite_energy_draws")
            continue
        band = scale_band(k)
        for kind, dm in dms:
            unk = onp.asarray(dm.unknownIndices)
            try:
                Ks = _lib(res, "assemble_sparse_stiffness_matrix", SparseMatrixAssembler.assemble_sparse_stiffness_matrix, Ke, mesh.conns, dm)
            except _LibraryRaised:
                continue
            K = onp.asarray(Ks.toarray())
            Huu = H[onp.ix_(unk, unk)]
            if K.shape != Huu.shape:
                res.violate("stiffness_shape", {"K": list(K.shape), "H": list(Huu.shape)}, None)
                continue
            detail = {"k": k, "factor": f, "E": spec["E"], "bc": kind, "model": base["name"], "factory": case["factory"], "max|H|": float(onp.max(onp.abs(Huu)))}
            obs, allowed, ij = entrywise_worst(K, Huu, TOL_ENTRY)
            res.bound("scaled_stiffness_vs_hessian_entrywise", obs, allowed, dict(detail, entry=list(ij), K=float(K[ij]), H=float(Huu[ij])))
            res.bound("scaled_stiffness_vs_hessian", float(onp.max(onp.abs(K - Huu))), 1e-10 * float(onp.max(onp.abs(Huu))), detail)
            res.bound("scaled_symmetry", float(onp.max(onp.abs(K - K.T))), 1e-10 * float(onp.max(onp.abs(K))) if K.size and onp.max(onp.abs(K)) > 0 else 0.0, detail)
            Ks.sort_indices()
            pattern = (Ks.indptr.copy(), Ks.indices.copy())
            if k == 0:
                ref[kind] = (K, Huu, pattern)
                res.count("scale_reference_comparisons")
                continue
            if kind not in ref:
                continue
            K0, H0, pat0 = ref[kind]
            # exact scaling (8 ulp of slack per entry), of the library's matrix and of the harness's oracle alike
            res.bound("stiffness_scales_exactly", float(onp.max(onp.abs(K - f * K0) - 8 * EPS * onp.abs(f * K0))), 0.0,
                      dict(detail, worst=float(onp.max(onp.abs(K - f * K0))), max_scaled=float(onp.max(onp.abs(f * K0)))))
            if float(onp.max(onp.abs(Huu - f * H0) - 8 * EPS * onp.abs(f * H0))) > 0:
                res.inconclusive("oracle self-check failed: the dense Hessian does not scale exactly with a power-of-two modulus factor")
            same = pattern[0].shape == pat0[0].shape and onp.array_equal(pattern[0], pat0[0]) and onp.array_equal(pattern[1], pat0[1])
            res.expect("stored_pattern_independent_of_scale", same, dict(detail, nnz=int(Ks.nnz), nnz_reference=int(pat0[1].size)))
            res.count("scale_comparisons")
            res.count("scale_band:" + band)
            if kind == "random":
                res.nontrivial = True
    return res
