import sys, io, contextlib, inspect; sys.path.insert(0,'/tmp/probe/shim')
import jax, jax.numpy as np
from optimism import EquationSolver as es, Objective
mon=sys.monitoring; TOOL=mon.DEBUGGER_ID; mon.use_tool_id(TOOL,"vobs")
code=es.trust_region_minimize.__code__
src,start=inspect.getsourcelines(es.trust_region_minimize)
targets={}
for i,l in enumerate(src):
    s=l.strip()
    if s.startswith("if willAccept:"): targets[start+i]="accept_test"
    if s.startswith("return "): targets[start+i]="exit:"+s
seen=[]
def on_line(c,line):
    if line in targets:
        fr=sys._getframe(1)
        loc=fr.f_locals
        seen.append((targets[line], {k:(float(loc[k]) if k in loc and k!='stepType' else loc.get(k)) for k in ('rho','trSize','stepType') if k in loc}))
    return None
mon.register_callback(TOOL,mon.events.LINE,on_line)
mon.set_local_events(TOOL,code,mon.events.LINE)
def energy(x,p): return x[0]*(x[0]+1)+0.3*x[1]*(x[1]-0.2)+0.2*x[2]*(x[2]-0.5)+x[0]*x[0]*x[1]*x[1]+p[0]*x[0]*x[1]+np.sin(x[0])
x=np.array([2.,7.,-1.]); p=Objective.Params(1.0)
with contextlib.redirect_stdout(io.StringIO()):
    obj=Objective.Objective(energy,x,p)
    sol,ok=es.nonlinear_equation_solve(obj,x,p,es.get_settings(debug_info=False))
for s in seen: print(s)
