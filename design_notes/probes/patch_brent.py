from scipy import optimize as _o
import numpy as _np
_orig=_o.brentq
def brentq(f,a,b,**kw):
    kw.setdefault('xtol',1e-300); kw.setdefault('rtol',4*_np.finfo(float).eps)
    return _orig(f,a,b,**kw)
