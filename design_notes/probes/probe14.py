import sys, io, contextlib; sys.path.insert(0,'/tmp/probe/shim')
import jax, jax.numpy as np, numpy as onp
from optimism import AlSolver, EquationSolver as es, Objective
from optimism.ConstrainedObjective import ConstrainedObjective
from scipy.optimize import minimize
rng=onp.random.default_rng(0)
stats=dict(runs=0,ret=0,exc=0,bad=0)
for t in range(40):
    n=int(rng.integers(2,6)); m=int(rng.integers(1,5))
    M=rng.normal(size=(n,n)); A=M@M.T+0.5*onp.eye(n); b=rng.normal(size=n)*2
    G=rng.normal(size=(m,n)); h=rng.normal(size=m)   # c(x)=G x - h >= 0
    nonlin = t%2==1
    def f(x,p): return 0.5*x@(np.array(A)@x)-np.array(b)@x
    def c(x,p):
        lin = np.array(G)@x-np.array(h)
        if nonlin: lin = lin.at[0].set(4.0 - x@x)   # ball constraint concave->convex set
        return lin
    x0=np.array(rng.normal(size=n)); lam0=np.array(onp.abs(rng.normal(size=m))); kap0=np.ones(m)*10**rng.uniform(-1,1)
    obj=ConstrainedObjective(f,c,x0,None,lam0,kap0)
    hist=[]
    def cb(x,p): hist.append((onp.array(obj.lam),onp.array(obj.kappa)))
    alS=AlSolver.get_settings(use_second_order_update=bool(t%4<2), tol=1e-8); sub=es.get_settings(debug_info=False)
    buf=io.StringIO(); stats['runs']+=1
    try:
        with contextlib.redirect_stdout(buf):
            x=AlSolver.augmented_lagrange_solve(obj,x0,None,alS,sub,callback=cb,useWarmStart=False)
    except Exception as ex:
        stats['exc']+=1; print("EXC",t,type(ex).__name__,str(ex)[:80]); continue
    stats['ret']+=1
    x=onp.array(x); lam=onp.array(obj.lam); cv=onp.array(c(np.array(x),None))
    gradf=A@x-b; J=onp.array(jax.jacobian(lambda y:c(y,None))(np.array(x)))
    kkt=onp.linalg.norm(gradf-J.T@lam)
    ref=minimize(lambda y: 0.5*y@A@y-b@y, onp.zeros(n), jac=lambda y:A@y-b, constraints=[{'type':'ineq','fun':lambda y: onp.array(c(np.array(y),None)),'jac':lambda y: onp.array(jax.jacobian(lambda z:c(z,None))(np.array(y)))}], method='SLSQP', options={'ftol':1e-14,'maxiter':500})
    dx=onp.linalg.norm(x-ref.x)
    mono = all((hist[i+1][1]>=hist[i][1]).all() for i in range(len(hist)-1)); lamnn=all((h_[0]>=0).all() for h_ in hist[1:])
    print(t,"nonlin",nonlin,"2nd",bool(t%4<2),"iters",len(hist),"kkt %.1e minc %.1e minlam %.1e comp %.1e dx %.1e kappa-mono %s lam>=0 %s kmax/k0 %.0f"%(kkt,cv.min(),lam.min(),onp.abs(lam*cv).max(),dx,mono,lamnn,(onp.array(obj.kappa)/kap0).max()), "refok",ref.success)
print(stats)
