import sys; sys.path.insert(0,'/tmp/probe/shim')
import jax, jax.numpy as np, numpy as onp
from scipy.spatial.transform import Rotation
from optimism import TensorMath as TM
rng=onp.random.default_rng(0)
sq=jax.jit(TM.sqrt_symm); ex=jax.jit(TM.exp_symm); lg=jax.jit(TM.log_symm); pw=jax.jit(TM.pow_symm,static_argnums=1)
jsq=jax.jit(lambda A,d: jax.jvp(TM.sqrt_symm,(A,),(d,))[1])
w=dict(sq=0,explog=0,logexp=0,pow=0,equiv=0,sq_rankdef=0,nan=0)
for t in range(1500):
    R=Rotation.random(random_state=int(rng.integers(1<<31))).as_matrix(); sc=10**rng.uniform(-20,20)
    lam=10**rng.uniform(-3,3,3)
    kind=t%5
    if kind==1: lam[1]=lam[0]
    if kind==2: lam[:]=lam[0]
    A=R@onp.diag(lam)@R.T; A=0.5*(A+A.T)
    S=onp.array(sq(np.array(A*sc))); w['sq']=max(w['sq'],onp.abs(S@S-A*sc).max()/(onp.abs(A).max()*sc))
    L=onp.array(lg(np.array(A))); w['explog']=max(w['explog'],onp.abs(onp.array(ex(np.array(L)))-A).max()/onp.abs(A).max())
    B=R@onp.diag(rng.uniform(-3,3,3))@R.T; B=0.5*(B+B.T); w['logexp']=max(w['logexp'],onp.abs(onp.array(lg(ex(np.array(B))))-B).max()/max(1,onp.abs(B).max()))
    P=onp.array(pw(np.array(A),0.25)); Pm=onp.array(pw(np.array(A),-0.25)); w['pow']=max(w['pow'],onp.abs(P@Pm-onp.eye(3)).max())
    Q=Rotation.random(random_state=int(rng.integers(1<<31))).as_matrix(); w['equiv']=max(w['equiv'],onp.abs(onp.array(lg(np.array(Q@A@Q.T)))-Q@L@Q.T).max()/max(1,onp.abs(L).max()))
    # rank deficient sqrt + jvp finite
    lam2=lam.copy(); lam2[0]=0.0; 
    if kind==3: lam2[1]=0.0
    A2=R@onp.diag(lam2)@R.T; A2=0.5*(A2+A2.T); S2=onp.array(sq(np.array(A2)))
    if not onp.isfinite(S2).all(): w['nan']+=1
    else: w['sq_rankdef']=max(w['sq_rankdef'],onp.abs(S2@S2-A2).max()/onp.abs(A2).max())
print(w)
