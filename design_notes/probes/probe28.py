import sys, io, contextlib; sys.path.insert(0,'/tmp/probe/shim')
import jax, jax.numpy as np, numpy as onp
from optimism.material import J2Plastic
rng=onp.random.default_rng(0)
props={'elastic modulus':100.,'poisson ratio':0.3,'yield strength':1.0,'hardening model':'voce','saturation strength':2.0,'reference plastic strain':0.05,'kinematics':'large deformations'}
m=J2Plastic.create_material_model_functions(props)
W=jax.jit(m.compute_energy_density); P=jax.jit(jax.grad(m.compute_energy_density)); upd=jax.jit(m.compute_state_new)
T=jax.jit(lambda H,st,dt,V: jax.jvp(lambda h: jax.grad(m.compute_energy_density)(h,st,dt),(H,),(V,))[1])
c8=onp.array([1/280,-4/105,1/5,-4/5,0,4/5,-1/5,4/105,-1/280])
def fd(fun,H,V,h): return sum(c*onp.array(fun(np.array(H+k*h*V))) for c,k in zip(c8,range(-4,5)) if c!=0)/h
st=m.compute_initial_state(); H=onp.zeros((3,3))
for s in range(6):
    dH=rng.normal(size=(3,3))*0.02; dH[2,:2]=0; dH[:2,2]=0; H=H+dH
    stn=upd(np.array(H),st,1.0)
    yielding=float(stn[0]-st[0])>0
    for h in (1e-2,1e-3,1e-4):
        e1=0;e2=0
        for d in range(3):
            V=rng.normal(size=(3,3)); V[2,:2]=0;V[:2,2]=0; V/=onp.linalg.norm(V)
            dW=fd(lambda X:W(X,st,1.0),H,V,h); e1=max(e1,abs(dW-float((onp.array(P(np.array(H),st,1.0))*V).sum())))
            dP=fd(lambda X:P(X,st,1.0),H,V,h); e2=max(e2,onp.abs(dP-onp.array(T(np.array(H),st,1.0,np.array(V)))).max())
        print("step",s,"yielding",yielding,"h",h,"err1 %.1e err2 %.1e"%(e1,e2),"scaleP %.1e"%onp.abs(onp.array(P(np.array(H),st,1.0))).max())
    st=stn
