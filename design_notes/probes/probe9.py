import sys; sys.path.insert(0,'/tmp/probe/shim')
import jax, jax.numpy as np, numpy as onp
from optimism.material import J2Plastic
from optimism import Mesh, ScalarRootFind, VTKWriter
for kin in ['large deformations','small deformations','seth hill']:
    props={'elastic modulus':10.,'poisson ratio':0.3,'yield strength':0.1,'hardening model':'linear','hardening modulus':1.0,'kinematics':kin}
    m=J2Plastic.create_material_model_functions(props)
    st=m.compute_initial_state()
    W=jax.jit(m.compute_energy_density)(np.zeros((3,3)),st,1.0)
    P=jax.jit(jax.grad(m.compute_energy_density))(np.zeros((3,3)),st,1.0)
    print(kin,"W0",float(W),"P0 max",float(np.abs(P).max()))
# combine_mesh
m1=Mesh.construct_structured_mesh(2,2,[0.,1.],[0.,1.]); m2=Mesh.construct_structured_mesh(3,2,[2.,3.],[0.,1.])
m1=Mesh.mesh_with_nodesets(m1,{'a':np.array([0,1])}); m2=Mesh.mesh_with_nodesets(m2,{'a':np.array([0,2])})
mc,_=Mesh.combine_mesh((m1,np.zeros_like(m1.coords)),(m2,np.zeros_like(m2.coords)))
print("blocks",{k:onp.array(v) for k,v in mc.blocks.items()},"nelem",mc.conns.shape[0],"nodesets",{k:onp.array(v) for k,v in mc.nodeSets.items()})
# rtsafe
x,info=ScalarRootFind.find_root(lambda x:x**3, 1.0, np.array([-1.,2.]), ScalarRootFind.get_settings())
print("x^3 root",x,info)
x,info=ScalarRootFind.find_root(lambda x:x**3, 1.0, np.array([-1.,2.]), ScalarRootFind.get_settings(max_iters=200))
print("x^3 root 200",x,info.iterations)
