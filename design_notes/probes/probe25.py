import sys, io, contextlib, time; sys.path.insert(0,'/tmp/probe/shim')
t0=time.time()
import jax, jax.numpy as np, numpy as onp
from optimism import Mesh, FunctionSpace as FS, QuadratureRule as QR, Mechanics, SparseMatrixAssembler as SMA, EquationSolver as es, Objective
from optimism.material import J2Plastic, Neohookean
print("import",time.time()-t0)
props={'elastic modulus':100.,'poisson ratio':0.3,'yield strength':1.0,'hardening model':'voce','saturation strength':2.0,'reference plastic strain':0.05,'kinematics':'large deformations'}
m=J2Plastic.create_material_model_functions(props)
H=np.array(onp.random.default_rng(0).normal(size=(3,3))*0.05); st=m.compute_initial_state()
for name,fn in [("state_new",jax.jit(m.compute_state_new)),("energy",jax.jit(m.compute_energy_density)),("grad",jax.jit(jax.grad(m.compute_energy_density))),("hess",jax.jit(jax.hessian(m.compute_energy_density))),("vmap grad",jax.jit(jax.vmap(jax.grad(m.compute_energy_density),(0,0,None))))]:
    t=time.time(); 
    if name.startswith("vmap"): r=fn(np.tile(H,(8,1,1)),np.tile(st,(8,1)),1.0)
    else: r=fn(H,st,1.0)
    jax.block_until_ready(r); t1=time.time()-t; t=time.time()
    if name.startswith("vmap"): r=fn(np.tile(H,(8,1,1)),np.tile(st,(8,1)),1.0)
    else: r=fn(H,st,1.0)
    jax.block_until_ready(r); print(name,"compile+run %.2f"%t1,"run %.4f"%(time.time()-t))
for order,N in ((1,5),(2,4),(3,3)):
    t=time.time()
    mesh=Mesh.construct_structured_mesh(N,N,[0.,1.],[0.,1.],elementOrder=order)
    mesh=Mesh.mesh_with_nodesets(mesh,{'l':np.flatnonzero(mesh.coords[:,0]<1e-8)}); 
    q=QR.create_quadrature_rule_on_triangle(2*order); fs=FS.construct_function_space(mesh,q)
    dm=FS.DofManager(fs,2,[FS.EssentialBC('l',0),FS.EssentialBC('l',1)])
    print("order",order,"mesh+fs+dof %.2f"%(time.time()-t),"nodes",mesh.coords.shape[0])
    for matname,mat in (("neo",Neohookean.create_material_model_functions({'elastic modulus':10.,'poisson ratio':0.3})),("j2",m)):
        mf=Mechanics.create_mechanics_functions(fs,'plane strain',mat); st=mf.compute_initial_state()
        U=0.01*jax.random.normal(jax.random.PRNGKey(0),mesh.coords.shape); Ubc=dm.get_bc_values(U)
        e=lambda Uu: mf.compute_strain_energy(dm.create_field(Uu,Ubc),st,1.0)
        t=time.time(); Hd=jax.jit(jax.hessian(e))(dm.get_unknown_values(U)); jax.block_until_ready(Hd); t1=time.time()-t
        t=time.time(); K=SMA.assemble_sparse_stiffness_matrix(mf.compute_element_stiffnesses(U,st,1.0),mesh.conns,dm); t2=time.time()-t
        print("  ",matname,"dense hess %.2f"%t1,"elem stiff+assemble %.2f"%t2,"n",Hd.shape[0],"err",float(onp.abs(K.toarray()-Hd).max()))
print("total",time.time()-t0)
