import sys, io, contextlib; sys.path.insert(0,'/tmp/pb/shim')
import jax, jax.numpy as np, numpy as onp
from optimism import Mesh, FunctionSpace as FS, QuadratureRule as QR, Mechanics, Interpolants
from optimism.inverse import MechanicsInverse as MI, AdjointFunctionSpace as AFS
from optimism.material import J2Plastic
rng=onp.random.default_rng(0)
mesh=Mesh.construct_structured_mesh(3,3,[0.,1.],[0.,1.]); q=QR.create_quadrature_rule_on_triangle(1); fs=FS.construct_function_space(mesh,q)
mat=J2Plastic.create_material_model_functions({'elastic modulus':100.,'poisson ratio':0.3,'yield strength':1.0,'hardening model':'linear','hardening modulus':5.0,'kinematics':'small deformations'})
mf=Mechanics.create_mechanics_functions(fs,'plane strain',mat)
U0=np.array(0.02*rng.normal(size=mesh.coords.shape)); st0=mf.compute_initial_state(); st1=mf.compute_updated_internal_variables(U0,st0)
U=np.array(0.03*rng.normal(size=mesh.coords.shape))
ivf=MI.create_ivs_update_inverse_functions(fs,'plane strain',mat)
# (1) d ivs_new / d ivs_prev
J1=onp.array(ivf.ivs_update_jac_ivs_prev(U,st1))
ref1=onp.array(jax.jacfwd(lambda s: mf.compute_updated_internal_variables(U,s))(st1))  # shape (ne,nq,ns,ne,nq,ns)
ne,nq,ns=st1.shape; d1=0
for e in range(ne):
    for k in range(nq): d1=max(d1,onp.abs(J1[e,k]-ref1[e,k,:,e,k,:]).max())
print("ivs_prev jac diff",d1,"yielded",int((st1[...,0]>0).sum()))
# (2) vjp wrt disp
av=np.array(rng.normal(size=st1.shape))
v2=onp.array(ivf.ivs_update_jac_disp_vjp(U,st1,av)); Jd=onp.array(jax.jacfwd(lambda u: mf.compute_updated_internal_variables(u,st1))(U))
ref2=onp.einsum('eqs,eqsnd->nd',onp.array(av),Jd); print("disp vjp diff",onp.abs(v2-ref2).max(),"scale",onp.abs(ref2).max())
# (3) vjp wrt coords
shapeOnRef=Interpolants.compute_shapes(mesh.parentElement,q.xigauss)
def upd_coords(X):
    a=AFS.construct_function_space_for_adjoint(X,shapeOnRef,mesh,q); m2=Mechanics.create_mechanics_functions(a,'plane strain',mat); return m2.compute_updated_internal_variables(U,st1)
v3=onp.array(ivf.ivs_update_jac_coords_vjp(U,st1,mesh.coords,av)); Jc=onp.array(jax.jacfwd(upd_coords)(mesh.coords)); ref3=onp.einsum('eqs,eqsnd->nd',onp.array(av),Jc)
print("coords vjp diff",onp.abs(v3-ref3).max(),"scale",onp.abs(ref3).max())
# (4) residual inverse functions
def energy(Uf,p,ivs,X):
    a=AFS.construct_function_space_for_adjoint(X,shapeOnRef,mesh,q); m2=Mechanics.create_mechanics_functions(a,'plane strain',mat); return m2.compute_strain_energy(Uf,ivs)
rf=MI.create_path_dependent_residual_inverse_functions(energy)
vx=np.array(rng.normal(size=U.shape))
r4=onp.array(rf.residual_jac_ivs_prev_vjp(U,None,st1,mesh.coords,vx)); G=jax.grad(energy,0)
J4=onp.array(jax.jacfwd(lambda s: G(U,None,s,mesh.coords))(st1)); ref4=onp.einsum('nd,ndeqs->eqs',onp.array(vx),J4); print("res ivs vjp diff",onp.abs(r4-ref4).max(),"scale",onp.abs(ref4).max())
r5=onp.array(rf.residual_jac_coords_vjp(U,None,st1,mesh.coords,vx)); J5=onp.array(jax.jacfwd(lambda X: G(U,None,st1,X))(mesh.coords)); ref5=onp.einsum('nd,ndme->me',onp.array(vx),J5); print("res coords vjp diff",onp.abs(r5-ref5).max(),"scale",onp.abs(ref5).max())
