import sys; sys.path.insert(0,'/tmp/probe/shim')
import jax, jax.numpy as np, numpy as onp
from scipy.spatial.transform import Rotation
from optimism import TensorMath as TM
onp.set_printoptions(precision=17)
rng=onp.random.default_rng(0); sq=jax.jit(TM.sqrt_symm); eg=jax.jit(TM.eigen_sym33_unit)
n=0
for t in range(200):
    R=Rotation.random(random_state=int(rng.integers(1<<31))).as_matrix(); lam=onp.array([0.0,rng.uniform(0.5,2),rng.uniform(0.5,2)])
    A=R@onp.diag(lam)@R.T; A=0.5*(A+A.T); S=onp.array(sq(np.array(A)))
    if not onp.isfinite(S).all():
        n+=1
        if n<3: print("A=",A.tolist()); print("eigs lib",onp.array(eg(np.array(A))[0]),"numpy",onp.linalg.eigvalsh(A))
print("nan",n,"of 200; axis-aligned diag(0,1,2):",onp.array(sq(np.diag(np.array([0.,1.,2.])))).tolist())
