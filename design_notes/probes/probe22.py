import sys, io, contextlib; sys.path.insert(0,'/tmp/probe/shim')
import jax, jax.numpy as np, numpy as onp
from optimism import EquationSolver as es, Objective, WarmStart
from scipy.sparse import csc_matrix
rng=onp.random.default_rng(0)
n=6; M=rng.normal(size=(n,n)); A=M@M.T+onp.eye(n); B=rng.normal(size=(n,3)); Cd=rng.normal(size=(n,2))
def f(x,p): return 0.5*x@(np.array(A)@x) - (np.array(B)@p[0])@x - (np.array(Cd)@p[2])@x
p0=Objective.Params(np.array([0.1,0.2,0.3]),None,np.array([1.,-1.]))
x0=np.array(onp.linalg.solve(A,B@onp.array(p0[0])+Cd@onp.array(p0[2])))
buf=io.StringIO()
with contextlib.redirect_stdout(buf):
    obj=Objective.Objective(f,x0,p0); obj.update_precond(x0)
    p1=Objective.Params(np.array([0.5,-0.2,0.9]),None,np.array([1.,-1.]))
    dx=WarmStart.warm_start_increment(obj,x0,p1)
    x1=onp.linalg.solve(A,B@onp.array(p1[0])+Cd@onp.array(p1[2]))
    p2=Objective.Params(np.array([0.1,0.2,0.3]),None,np.array([2.,0.5]))
    dx2=WarmStart.warm_start_increment(obj,x0,p2,index=2)
    x2=onp.linalg.solve(A,B@onp.array(p2[0])+Cd@onp.array(p2[2]))
print("warm0 err",onp.abs(onp.array(x0)+dx-x1).max(),"warm2 err",onp.abs(onp.array(x0)+dx2-x2).max())
# scaled objective
class PS(Objective.PrecondStrategy):
    def __init__(self): pass
    def initialize(self,x,p): self.K=csc_matrix(A)
with contextlib.redirect_stdout(buf):
    sobj=Objective.ScaledObjective(f,x0,p0,PS())
    xs,ok=es.nonlinear_equation_solve(sobj,np.zeros(n),p1,es.get_settings(debug_info=False),useWarmStart=False)
print("scaled solve err",onp.abs(onp.array(xs)-x1).max(),ok,"p updated",bool((sobj.p[0]==p1[0]).all()))
