import sys; sys.path.insert(0,'/tmp/probe/shim')
import jax, jax.numpy as np, numpy as onp, scipy.linalg as sla
from optimism import LinAlg, TensorMath as TM
rng=onp.random.default_rng(0)
res={}
for n in range(2,11):
    sq=jax.jit(LinAlg.sqrtm); lg=jax.jit(LinAlg.logm_iss)
    w=dict(sq=0,lg=0,lgexp=0,nan=0,cond=0)
    for t in range(40):
        kind=t%3
        if kind==0:
            Q,_=onp.linalg.qr(rng.normal(size=(n,n))); A=Q@onp.diag(10**rng.uniform(-2,2,n))@Q.T
        elif kind==1:
            V=rng.normal(size=(n,n))+2*onp.eye(n); A=V@onp.diag(10**rng.uniform(-1,1,n))@onp.linalg.inv(V)
        else:
            A=sla.expm(rng.normal(size=(n,n))*0.5)
        c=onp.linalg.cond(A)
        S=onp.array(sq(np.array(A))); L=onp.array(lg(np.array(A)))
        if not (onp.isfinite(S).all() and onp.isfinite(L).all()): w['nan']+=1; continue
        w['sq']=max(w['sq'],onp.abs(S@S-A).max()/onp.abs(A).max()/c); w['lgexp']=max(w['lgexp'],onp.abs(sla.expm(L)-A).max()/onp.abs(A).max()/c)
        w['cond']=max(w['cond'],c)
    res[n]=w; print(n,{k:("%.1e"%v) for k,v in w.items()})
# detpIm1 / inv / polar
worst=dict(detp=0,inv=0,polR=0,polRU=0)
f_det=jax.jit(TM.detpIm1); f_inv=jax.jit(TM.inv); f_pol=jax.jit(TM.right_polar_decomposition)
for t in range(3000):
    s=10**rng.uniform(-12,0); A=rng.normal(size=(3,3))*s
    ex=float(onp.linalg.det((A+onp.eye(3)).astype(onp.longdouble))-1) if False else None
    import mpmath as mp
    Am=mp.matrix(A.tolist())+mp.eye(3); exact=mp.det(Am)-1
    v=float(f_det(np.array(A))); worst['detp']=max(worst['detp'],abs(v-float(exact))/max(abs(float(exact)),1e-300))
    F=rng.normal(size=(3,3))+2*onp.eye(3)
    if onp.linalg.det(F)<0.1: continue
    Fi=onp.array(f_inv(np.array(F))); worst['inv']=max(worst['inv'],onp.abs(Fi@F-onp.eye(3)).max()/onp.linalg.cond(F))
    R,U=f_pol(np.array(F)); R=onp.array(R);U=onp.array(U); worst['polR']=max(worst['polR'],onp.abs(R.T@R-onp.eye(3)).max()/onp.linalg.cond(F)); worst['polRU']=max(worst['polRU'],onp.abs(R@U-F).max())
print(worst)
