import sys, io, contextlib, time; sys.path.insert(0,'/tmp/probe/shim')
import jax, jax.numpy as np, numpy as onp
from optimism import EquationSolver as es, Objective
from scipy.sparse import identity as speye, csc_matrix
rng=onp.random.default_rng(int(sys.argv[1]) if len(sys.argv)>1 else 0)
def fam_quad(x,p): A,b,c=p[0]; return 0.5*x@(A@x)-b@x
def fam_quartic(x,p): A,b,c=p[0]; return 0.5*x@(A@x)-b@x+c*np.sum(x**4)
def fam_rosen(x,p): A,b,c=p[0]; return np.sum(c*100*(x[1:]-x[:-1]**2)**2+(1-x[:-1])**2)
def fam_wells(x,p): A,b,c=p[0]; return np.sum((x**2-1)**2)+0.1*x@(A@x)
def fam_flat(x,p): A,b,c=p[0]; return -np.exp(-0.5*x@(A@x))
def fam_barrier(x,p): A,b,c=p[0]; return 0.5*x@(A@x)-b@x-0.1*np.sum(np.log(2.0-x))-0.1*np.sum(np.log(2.0+x))
fams=dict(quad=fam_quad,quartic=fam_quartic,rosen=fam_rosen,wells=fam_wells,flat=fam_flat,barrier=fam_barrier)
class IdPS(Objective.PrecondStrategy):
    def __init__(self,n): self.n=n
    def initialize(self,x,p): self.K=speye(self.n,format='csc')
stats={}; t0=time.time()
for trial in range(int(sys.argv[2]) if len(sys.argv)>2 else 60):
    name=list(fams)[trial%len(fams)]; f=fams[name]
    n=int(rng.integers(2,9))
    M=rng.normal(size=(n,n)); A=M@M.T/n+0.1*onp.eye(n)
    if name in('quartic','wells') : A=A-0.8*onp.eye(n)
    if name=='quad' and trial%12==0: D=onp.diag(10**rng.uniform(-3,3,n)); A=D@A@D
    b=rng.normal(size=n); c=10**rng.uniform(-2,0)
    p=Objective.Params((np.array(A),np.array(b),c))
    x0=np.array(rng.normal(size=n)*(0.5 if name=='barrier' else 10**rng.uniform(-1,1)))
    if name=='barrier': x0=np.clip(x0,-1.5,1.5)
    s=es.get_settings(tr_size=10**rng.uniform(-2,3),min_tr_size=10**rng.uniform(-12,-4),max_trust_iters=int(rng.choice([3,20,100])),max_cg_iters=int(rng.choice([2,10,50])),use_preconditioned_inner_product_for_cg=bool(rng.integers(2)),use_incremental_objective=(trial%7==3),tol=10**rng.uniform(-10,-5),debug_info=False)
    buf=io.StringIO(); tr=[]
    fj=jax.jit(f); gj=jax.jit(jax.grad(f))
    with contextlib.redirect_stdout(buf):
        obj=Objective.Objective(f,x0,p, IdPS(n) if trial%5==4 else None)
        try:
            x,ok=es.nonlinear_equation_solve(obj,x0,p,s,callback=lambda x,o: tr.append(onp.array(x)),useWarmStart=False)
        except Exception as ex:
            stats[(name,'EXC '+type(ex).__name__)]=stats.get((name,'EXC '+type(ex).__name__),0)+1; continue
    vals=[float(fj(np.array(t),p)) for t in tr]; f0=float(fj(x0,p))
    chain=[f0]+vals; viol=[]
    for i in range(1,len(chain)):
        if chain[i]>chain[i-1]+8*2.2e-16*max(1,abs(chain[i]),abs(chain[i-1])): viol.append(i)
    key=[]
    if viol and not s.use_incremental_objective:
        key.append('UPHILL@final+ok' if (viol==[len(chain)-1] and ok) else 'UPHILL')
    if len(tr) and not (onp.array(x)==tr[-1]).all(): key.append('RET!=LAST')
    if ok and float(onp.linalg.norm(onp.array(gj(x,p))))>=s.tol: key.append('FLAG')
    if any(not onp.isfinite(t).all() for t in tr): key.append('NONFINITE')
    k=(name,'ok' if ok else 'fail',tuple(key))
    stats[k]=stats.get(k,0)+1
    if key and key!=['UPHILL@final+ok']: print("CASE",trial,name,key,"chain",chain[:6],"n",n)
for k,v in sorted(stats.items(),key=str): print(k,v)
print("time",time.time()-t0)
