import sys; sys.path.insert(0,'/tmp/probe/shim')
import jax, jax.numpy as np, numpy as onp
from optimism import Mesh, FunctionSpace as FS, QuadratureRule as QR, Interpolants
from scipy.spatial import Delaunay
rng=onp.random.default_rng(1)
pts=rng.uniform(0.2,1.5,(14,2)); tri=Delaunay(pts); conns=[]
for c in tri.simplices:
    a,b,cc=pts[c]; ar=0.5*((b-a)[0]*(cc-a)[1]-(b-a)[1]*(cc-a)[0])
    if abs(ar)<1e-4: continue
    if ar<0: c=c[[0,2,1]]
    conns.append(onp.roll(c,rng.integers(0,3)))
conns=onp.array(conns); used=onp.unique(conns); remap=-onp.ones(len(pts),int); remap[used]=onp.arange(len(used)); pts=pts[used]; conns=remap[conns]
base=Mesh.construct_mesh_from_basic_data(np.array(pts),np.array(conns),{'b':np.arange(len(conns))})
area=sum(0.5*((pts[c[1]]-pts[c[0]])[0]*(pts[c[2]]-pts[c[0]])[1]-(pts[c[1]]-pts[c[0]])[1]*(pts[c[2]]-pts[c[0]])[0]) for c in conns)
# exact monomial integral over triangle via high-order collapsed Gauss
from scipy.special import roots_jacobi, roots_legendre
def tri_int(fun, v, n=14):
    x1,w1=roots_legendre(n); x1=(x1+1)/2; w1=w1/2
    x2,w2=roots_jacobi(n,1,0); x2=(x2+1)/2; w2=w2/4
    tot=0
    J=abs((v[1]-v[0])[0]*(v[2]-v[0])[1]-(v[1]-v[0])[1]*(v[2]-v[0])[0])
    for a,wa in zip(x2,w2):
        for b,wb in zip(x1,w1):
            xi=a; eta=b*(1-a)
            P=v[0]+xi*(v[1]-v[0])+eta*(v[2]-v[0]); tot+=wa*wb*fun(P)
    return tot*J
for order in (1,2,3,4):
  for bubble in (False,True):
    if bubble and order==1: continue
    m=Mesh.create_higher_order_mesh_from_simplex_mesh(base,order,useBubbleElement=bubble) if order>1 else base
    for qd in (2*order, 10):
        q=QR.create_quadrature_rule_on_triangle(qd); fs=FS.construct_function_space(m,q)
        pou=float(np.abs(fs.shapes.sum(axis=2)-1).max()); gz=float(np.abs(fs.shapeGrads.sum(axis=2)).max())
        volerr=abs(float(fs.vols.sum())-area)
        # polynomial reproduction degree=order: x^i y^j
        worst=0;worstg=0
        X=onp.array(m.coords)
        for i in range(order+1):
            for j in range(order+1-i):
                U=np.array((X[:,0]**i*X[:,1]**j)[:,None])
                uq=onp.array(FS.interpolate_to_points(fs,U))[...,0]; xq=onp.array(FS.interpolate_to_points(fs,m.coords))
                worst=max(worst,onp.abs(uq-xq[...,0]**i*xq[...,1]**j).max())
                gq=onp.array(FS.compute_field_gradient(fs,U))[...,0,:]
                gx=i*xq[...,0]**max(i-1,0)*xq[...,1]**j if i>0 else 0*xq[...,0]; gy=j*xq[...,0]**i*xq[...,1]**max(j-1,0) if j>0 else 0*xq[...,0]
                worstg=max(worstg,onp.abs(gq[...,0]-gx).max(),onp.abs(gq[...,1]-gy).max())
        # quadrature exactness for degree qd monomial x^a y^b
        a=qd//2; b=qd-a
        num=float(np.sum(fs.vols*(np.array(onp.array(FS.interpolate_to_points(fs,m.coords))[...,0]**a*onp.array(FS.interpolate_to_points(fs,m.coords))[...,1]**b))))
        ex=sum(tri_int(lambda P:P[0]**a*P[1]**b, pts[c]) for c in conns)
        print(order,bubble,qd,"pou %.1e gradsum %.1e vol %.1e repro %.1e grad %.1e quad relerr %.1e"%(pou,gz,volerr,worst,worstg,abs(num-ex)/abs(ex)))
