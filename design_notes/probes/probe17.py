import sys; sys.path.insert(0,'/tmp/probe/shim')
import jax, jax.numpy as np, numpy as onp
from optimism import TensorMath as TM
from optimism.JaxConfig import if_then_else
onp.set_printoptions(precision=17, linewidth=200)
A = onp.array([[ 1.6402282062906002 ,  0.4161631135156594 , -0.13019047522572513],
       [ 0.4161631135156594 ,  1.3104393909107994 ,  0.19162244678564916],
       [-0.13019047522572513,  0.19162244678564916,  1.8630279222260575 ]])
def unit_dbg(tensor):
    cmax = np.linalg.norm(tensor, ord=np.inf)
    cmaxInv = if_then_else(cmax > 0.0, 1.0/cmax, 1.0)
    scaledTensor = cmaxInv * tensor
    evals, evecs = TM.eigen_sym33_non_unit(scaledTensor)
    evec0 = evecs[:,0]/np.linalg.norm(evecs[:,0])
    evec1 = evecs[:,1]/np.linalg.norm(evecs[:,1])
    evec2 = evecs[:,2]/np.linalg.norm(evecs[:,2])
    return evals, evecs, np.column_stack((evec0,evec1,evec2))
for name,res in [("single",jax.jit(unit_dbg)(np.array(A))),("vmap",jax.tree_util.tree_map(lambda x:x[0], jax.jit(jax.vmap(unit_dbg))(np.array(onp.tile(A,(2,1,1))))))]:
    evals,raw,V=[onp.array(r) for r in res]
    print(name,"evals",evals); print("raw\n",raw); print("V\n",V)
    n=raw/onp.linalg.norm(raw,axis=0)
    print("orth(raw normalized in numpy)",onp.abs(n.T@n-onp.eye(3)).max(),"orth(V)",onp.abs(V.T@V-onp.eye(3)).max())
