import sys; sys.path.insert(0,'/tmp/probe/shim')
import jax, jax.numpy as np
from optimism import EquationSolver as es, Objective
def energy(x, params):
    p = params[0]
    return x[0]*(x[0]+1) + 0.3*x[1]*(x[1]-0.2) + 0.2*x[2]*(x[2]-0.5) + x[0]*x[0]*x[1]*x[1] + p*x[0]*x[1] + np.sin(x[0])
x = np.array([2., 7., -1.]); p = Objective.Params(1.0)
obj = Objective.Objective(energy, x, p)
tr=[]
sol, ok = es.nonlinear_equation_solve(obj, x, p, es.get_settings(), callback=lambda x,o: tr.append((x, float(o.value(x)))))
print(sol, ok, [t[1] for t in tr])
print(jax.config.jax_enable_x64)
