import sys, io, contextlib; sys.path.insert(0,'/tmp/probe/shim')
import jax, jax.numpy as np, numpy as onp
from optimism.material import J2Plastic, Hardening
E=100.; nu=0.3; Y0=1.0; mu=0.5*E/(1+nu)
props={'elastic modulus':E,'poisson ratio':nu,'yield strength':Y0,'kinematics':'small deformations','hardening model':'linear','hardening modulus':0.0}
hm=Hardening.create_hardening_model(props); P=J2Plastic.make_properties(E,nu,Y0)
gy=Y0/(onp.sqrt(3)*mu)
rng=onp.random.default_rng(0); nn=0; tot=0
for t in range(2000):
    H=rng.normal(size=(3,3))*10**rng.uniform(-2.5,-0.5); eps=0.5*(H+H.T)
    N=J2Plastic.compute_flow_direction(np.array(eps)); tm=2*mu*float(np.tensordot(J2Plastic.TensorMath.dev(np.array(eps)),N))
    if tm<=Y0*(1+1e-9): continue
    tot+=1
    ub=(tm-Y0)/(3*mu)
    fh=float(J2Plastic.r(np.array(eps),ub,0.0,1.0,P,hm)); fl=float(J2Plastic.r(np.array(eps),0.0,0.0,1.0,P,hm))
    if not (fl*fh<0 or fh==0): nn+=1
print("perfect plasticity: bracket fails sign test in",nn,"of",tot,"yielding states; sample fh",fh,"fl",fl)
