import sys; sys.path.insert(0,'/tmp/probe/shim')
import jax, jax.numpy as np, numpy as onp
from optimism.contact import MortarContact as MC, EdgeCpp
rng=onp.random.default_rng(0)
f_len=jax.jit(lambda a,b: MC.integrate_with_mortar(a,b,MC.compute_average_normal,lambda xa,xb,g:1.0))
f_lenA=jax.jit(lambda a,b: MC.integrate_with_mortar(a,b,MC.compute_normal_from_a,lambda xa,xb,g:1.0))
f_gap=jax.jit(lambda a,b: MC.integrate_with_mortar(a,b,MC.compute_average_normal,lambda xa,xb,g:g))
stats=dict(nan=0,neg=0,nonzero_disjoint=0,rigid=0,n=0)
ex=[]
for t in range(3000):
    A=rng.normal(size=(2,2))*10**rng.uniform(-2,1); 
    kind=t%5
    if kind==0: B=rng.normal(size=(2,2))*10**rng.uniform(-2,1)+A.mean(axis=0)   # arbitrary
    elif kind==1:  # facing, inclined slightly
        tA=A[1]-A[0]; nA=onp.array([tA[1],-tA[0]])/onp.linalg.norm(tA); th=rng.normal()*0.2; R=onp.array([[onp.cos(th),-onp.sin(th)],[onp.sin(th),onp.cos(th)]])
        s0,s1=sorted(rng.uniform(-0.5,1.5,2)); h=rng.uniform(0.01,0.5)*onp.linalg.norm(tA)
        B=onp.array([A[0]+s1*tA+h*nA, A[0]+s0*tA+h*nA]); c=B.mean(axis=0); B=(B-c)@R.T+c
    elif kind==2:  # same orientation (normals equal), offset
        tA=A[1]-A[0]; nA=onp.array([tA[1],-tA[0]])/onp.linalg.norm(tA); B=A+nA*rng.uniform(0.01,1)+tA*rng.uniform(-0.5,0.5)
    elif kind==3:  # far apart, disjoint along tangent (facing)
        tA=A[1]-A[0]; nA=onp.array([tA[1],-tA[0]])/onp.linalg.norm(tA); B=onp.array([A[1]+3*tA+0.1*nA*onp.linalg.norm(tA),A[1]+2*tA+0.1*nA*onp.linalg.norm(tA)])
    else: # touching at a point (facing): B spans from A[1] outward
        tA=A[1]-A[0]; nA=onp.array([tA[1],-tA[0]])/onp.linalg.norm(tA); h=0.1*onp.linalg.norm(tA); B=onp.array([A[1]+tA+h*nA, A[1]+h*nA])
    if onp.linalg.norm(B[1]-B[0])<1e-3*onp.linalg.norm(A[1]-A[0]): continue
    stats['n']+=1
    L=float(f_len(np.array(A),np.array(B))); G=float(f_gap(np.array(A),np.array(B)))
    if not onp.isfinite(L) or not onp.isfinite(G):
        stats['nan']+=1
        if len(ex)<5: ex.append(("nan",kind,A.tolist(),B.tolist(),L,G))
        continue
    if L< -1e-12*onp.linalg.norm(A[1]-A[0]): stats['neg']+=1; ex.append(("neg",kind,L))
    if kind==3 and abs(L)>1e-12: stats['nonzero_disjoint']+=1; ex.append(("disjoint",L))
    th=rng.uniform(0,2*onp.pi); R=onp.array([[onp.cos(th),-onp.sin(th)],[onp.sin(th),onp.cos(th)]]); tr=rng.normal(size=2)*3
    L2=float(f_len(np.array(A@R.T+tr),np.array(B@R.T+tr))); G2=float(f_gap(np.array(A@R.T+tr),np.array(B@R.T+tr)))
    sc=onp.linalg.norm(A[1]-A[0])
    if abs(L-L2)>1e-9*sc or abs(G-G2)>1e-9*sc*sc:
        stats['rigid']+=1
        if len(ex)<12: ex.append(("rigid",kind,L,L2,G,G2,A.tolist(),B.tolist()))
print(stats)
for e in ex[:10]: print(e)
