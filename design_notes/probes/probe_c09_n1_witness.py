import sys, os
sys.path.insert(0, os.environ.get('VERIF_REPO','/repo'))
import jax, jax.numpy as np, numpy as onp
from optimism.material import J2Plastic
E=100.; nu=0.3; Y0=1.0; mu=0.5*E/(1+nu)
for kin in ('small deformations','large deformations'):
  for m in (2.0, 5.0, 20.0):
    props={'elastic modulus':E,'poisson ratio':nu,'yield strength':Y0,'kinematics':kin,'hardening model':'linear','hardening modulus':5.0,
           'rate sensitivity':'power law','rate sensitivity stress':0.5,'rate sensitivity exponent':m,'reference plastic strain rate':1.0}
    mod=J2Plastic.create_material_model_functions(props); upd=jax.jit(mod.compute_state_new); st0=mod.compute_initial_state()
    gy=Y0/(onp.sqrt(3)*mu)
    out=[]
    for fac in (1.0+1.5e-10, 1.0+1e-6, 1.001, 1.02, 1.05, 1.2, 2.0):
        H=onp.zeros((3,3)); H[0,1]=H[1,0]=0.5*gy*fac
        s=onp.array(upd(np.array(H),st0,1.0)); out.append((fac, 'NaN' if not onp.isfinite(s).all() else '%.3g'%s[0]))
    print(kin, 'm=%g'%m, out)
