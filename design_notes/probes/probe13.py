import sys, io, contextlib; sys.path.insert(0,'/tmp/probe/shim')
import jax, jax.numpy as np, numpy as onp
from optimism import TrustRegionSPG as spg, Objective
rng=onp.random.default_rng(0)
def quad(x,p):
    A=p[0]; b=p[1]; return 0.5*x@(A@x)-b@x + p[2]*np.sum(np.cos(3*x))
stats=dict(runs=0,succ=0,infeas=0,uphill=0,exc=0,maxinf=0.0, uphill_final=0)
for t in range(120):
    n=int(rng.integers(1,7))
    M=rng.normal(size=(n,n)); 
    nonconv = t%3==2
    A=M@M.T+ (0.1*onp.eye(n)) 
    if nonconv: A = A - 1.5*onp.eye(n)
    b=rng.normal(size=n)*3
    lb=-10**rng.uniform(-2,1,n); ub=10**rng.uniform(-2,1,n)
    m=rng.random(n); lb[m<0.2]=-onp.inf; ub[(m>0.2)&(m<0.4)]=onp.inf
    deg=(m>0.9); ub[deg]=lb[deg]=0.3
    x0=onp.clip(rng.normal(size=n),lb,ub)
    if t%4==0: x0=onp.where(onp.isfinite(lb),lb,x0)  # start on faces
    p=Objective.Params(np.array(A),np.array(b),0.3 if nonconv else 0.0)
    obj=Objective.Objective(quad,np.array(x0),p)
    bounds=np.column_stack((lb,ub))
    tr=[]
    def cb(x,o): tr.append((onp.array(x),float(o.value(x))))
    settings=spg.get_settings(debug_info=False, spg_use_nonmonotone=bool(t%2), tr_size=10**rng.uniform(-2,2))
    buf=io.StringIO()
    try:
        with contextlib.redirect_stdout(buf):
            x,ok=spg.bound_constrained_trust_region_minimize(obj,np.array(x0),bounds,settings,callback=cb)
    except Exception as ex:
        stats['exc']+=1; print("EXC",t,type(ex).__name__,str(ex)[:100]); continue
    stats['runs']+=1; stats['succ']+=bool(ok)
    f0=float(obj.value(np.array(x0))); prev=f0
    for i,(xi,fi) in enumerate(tr):
        inf=max((lb-xi).max(),(xi-ub).max())
        if inf>0:
            stats["infeas"]+=1; stats["maxinf"]=max(stats["maxinf"],inf)
            if inf>1e-9 and stats.setdefault("pr",0)<6 and not stats.__setitem__("pr",stats["pr"]+1): print("INFEAS",t,"i",i,"of",len(tr),"inf",inf,"n",n,"nonconv",nonconv,"nonmono",bool(t%2),"lb",lb,"ub",ub,"x",xi,"ok",ok)
        if fi>prev+1e-14*max(1,abs(prev)):
            if i==len(tr)-1 and ok: stats['uphill_final']+=1
            else: stats['uphill']+=1; print("UPHILL",t,i,len(tr),prev,fi,ok)
        prev=fi
print(stats)
