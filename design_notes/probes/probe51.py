import sys; sys.path.insert(0,'/tmp/probe/shim')
import jax.numpy as np, numpy as onp
from optimism import Mesh, QuadratureRule as QR, FunctionSpace as FS
for (nx,ny) in ((2,2),(2,7),(9,2),(1,3)):
    try:
        m=Mesh.construct_structured_mesh(nx,ny,[0.,1.],[-1.,2.]); c=onp.array(m.coords); k=onp.array(m.conns)
        ar=[0.5*((c[e[1]]-c[e[0]])[0]*(c[e[2]]-c[e[0]])[1]-(c[e[1]]-c[e[0]])[1]*(c[e[2]]-c[e[0]])[0]) for e in k]
        print(nx,ny,"nodes",len(c),"els",len(k),"min area",min(ar) if ar else None,"used all",len(onp.unique(k))==len(c))
    except Exception as ex: print(nx,ny,"EXC",type(ex).__name__,ex)
for d in (0,1,10,11,12):
    try:
        q=QR.create_quadrature_rule_on_triangle(d); print("tri degree",d,"npts",len(q),"sumw",float(q.wgauss.sum()))
    except Exception as ex: print("tri degree",d,"EXC",type(ex).__name__,str(ex)[:80])
