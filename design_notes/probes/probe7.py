import sys; sys.path.insert(0,'/tmp/probe/shim')
import jax, jax.numpy as np, numpy as onp
from optimism.treigen import treigen
from scipy.stats import ortho_group
rng = onp.random.default_rng(0)
def ref_min(A,b,D):
    # brute: dense eig + bisection on secular eq (high accuracy), hard case handled
    sig,v = onp.linalg.eigh(A); bv=v.T@b
    if sig[0]>0:
        p=-v@(bv/sig)
        if onp.linalg.norm(p)<=D: return 0.5*p@A@p+b@p
    lo=max(0,-sig[0]); 
    f=lambda lam: onp.linalg.norm(bv/(sig+lam))
    # hard case
    mask = onp.abs(sig-sig[0])<1e-12*max(1,abs(sig).max())
    if onp.all(onp.abs(bv[mask])<1e-14):
        pr = onp.where(mask,0,-bv/onp.where(mask,1,(sig-sig[0])))
        if onp.linalg.norm(pr)<=D:
            tau=onp.sqrt(D*D-pr@pr); pr2=pr.copy(); pr2[onp.argmax(mask)]+=tau
            p=v@pr2; return 0.5*p@A@p+b@p
    hi=lo+1
    while f(hi)>D: hi=lo+2*(hi-lo)
    lo2=lo
    for _ in range(200):
        mid=0.5*(lo2+hi)
        if f(mid)>D: lo2=mid
        else: hi=mid
    p=-v@(bv/(sig+hi)); return 0.5*p@A@p+b@p
nbad=0
for trial in range(300):
    n = rng.integers(2,8)
    Q = ortho_group.rvs(n, random_state=rng.integers(1<<31)) if n>1 else onp.eye(1)
    sig = onp.sort(rng.uniform(-2,2,n))
    hard = trial%3==0
    A = Q@onp.diag(sig)@Q.T; A=0.5*(A+A.T)
    b = rng.normal(size=n)
    if hard:
        sg,vv = onp.linalg.eigh(A)
        b = b - vv[:,0]*(vv[:,0]@b)   # orthogonal to lowest eigvec
    D = 10**rng.uniform(-2,2)
    s = onp.array(treigen.solve(np.array(A),np.array(b),D))
    m = 0.5*s@A@s+b@s; mr = ref_min(A,b,D)
    nrm = onp.linalg.norm(s)
    if m > mr + 1e-7*(abs(mr)+1e-12) or nrm>D*(1+1e-6):
        nbad+=1
        if nbad<6: print("trial",trial,"n",n,"hard",hard,"D",D,"model",m,"ref",mr,"norm/D",nrm/D)
print("bad",nbad)
