import sys; sys.path.insert(0,'/tmp/probe/shim')
import jax, jax.numpy as np, numpy as onp
from optimism import Mesh, FunctionSpace as FS, QuadratureRule as QR
from scipy.spatial import Delaunay
rng=onp.random.default_rng(2)
# 1D rules
worst=0
for deg in range(0,26):
    q=QR.create_quadrature_rule_1D(deg); x=onp.array(q.xigauss); w=onp.array(q.wgauss)
    for k in range(deg+1): worst=max(worst,abs((w*x**k).sum()-1/(k+1))*(k+1))
print("1D rule worst rel err",worst)
# mesh with hole
pts=rng.uniform(0,2,(40,2)); tri=Delaunay(pts); conns=[]
for c in tri.simplices:
    a,b,cc=pts[c]; ar=0.5*((b-a)[0]*(cc-a)[1]-(b-a)[1]*(cc-a)[0]); cen=pts[c].mean(axis=0)
    if abs(ar)<1e-3 or onp.linalg.norm(cen-1.0)<0.35: continue
    if ar<0: c=c[[0,2,1]]
    conns.append(onp.roll(c,rng.integers(0,3)))
conns=onp.array(conns); used=onp.unique(conns); remap=-onp.ones(len(pts),int); remap[used]=onp.arange(len(used)); pts=pts[used]; conns=remap[conns]
base=Mesh.construct_mesh_from_basic_data(np.array(pts),np.array(conns),{'b':np.arange(len(conns))})
edgeConns,edges=Mesh.create_edges(onp.array(conns))
# independent edge map
from collections import defaultdict
d=defaultdict(list)
for e,c in enumerate(conns):
    for k in range(3): d[tuple(sorted((c[k],c[(k+1)%3])))].append((e,k))
print("edges",len(edgeConns),"unique expected",len(d),"boundary",sum(1 for v in d.values() if len(v)==1),"reported boundary",(edges[:,2]<0).sum(), "nonmanifold",sum(1 for v in d.values() if len(v)>2))
ok=True
for ec,ed in zip(edgeConns,edges):
    key=tuple(sorted(ec)); lst=d[key]
    if (ed[0],ed[1]) not in lst: ok=False
    if tuple(ec)!=(conns[ed[0]][ed[1]],conns[ed[0]][(ed[1]+1)%3]): ok=False
    if ed[2]>=0 and (ed[2],ed[3]) not in lst: ok=False
    if ed[2]<0 and len(lst)!=1: ok=False
print("edge table consistent",ok)
bnd=np.array(edges[edges[:,2]<0][:,:2])
area=sum(0.5*((pts[c[1]]-pts[c[0]])[0]*(pts[c[2]]-pts[c[0]])[1]-(pts[c[1]]-pts[c[0]])[1]*(pts[c[2]]-pts[c[0]])[0]) for c in conns)
for order in (1,2,3):
    m=Mesh.create_higher_order_mesh_from_simplex_mesh(base,order) if order>1 else base
    fs=FS.construct_function_space(m,QR.create_quadrature_rule_on_triangle(6)); q1=QR.create_quadrature_rule_1D(8)
    U=np.zeros(m.coords.shape)
    # F=(x^a y^b, x^c y^d)
    for (a,b,c,dd) in [(1,0,0,1),(2,1,1,2),(3,0,0,3),(0,0,0,0)]:
        fun=lambda u,X,n: X[0]**a*X[1]**b*n[0]+X[0]**c*X[1]**dd*n[1]
        lhs=float(FS.integrate_function_on_edges(fs,fun,U,q1,bnd))
        Xq=onp.array(FS.interpolate_to_points(fs,m.coords)); div=(a*Xq[...,0]**max(a-1,0)*Xq[...,1]**b if a>0 else 0)+(dd*Xq[...,0]**c*Xq[...,1]**max(dd-1,0) if dd>0 else 0)
        rhs=float((onp.array(fs.vols)*div).sum())
        print(order,(a,b,c,dd),"boundary flux %.12f  area-int div %.12f diff %.1e"%(lhs,rhs,abs(lhs-rhs)), "area",area if (a,b,c,dd)==(1,0,0,1) else "")
