import sys; sys.path.insert(0,'/tmp/probe/shim')
import jax, jax.numpy as np, numpy as onp, inspect, re
from optimism import TensorMath as TM, Math
from optimism.JaxConfig import if_then_else
onp.set_printoptions(precision=17, linewidth=200)
src = inspect.getsource(TM.eigen_sym33_non_unit)
# instrument: return dict of intermediates
src = src.replace("def eigen_sym33_non_unit(tensor):","def eig_dbg(tensor):")
src = src.replace("    return evals[idx],evecs[:,idx]","    return dict(c2=c2,rr=rr,eval2=eval2,k_row1=k_row1,row2=row2,row3=row3,a0=a0,a1=a1,a_row2=a_row2,rm2xx=rm2xx,rm2yy=rm2yy,rm2xy_rm2xy=rm2xy_rm2xy,k_a=k_a_rm2xy,b=b,eval0=eval0,eval1=eval1,evec0=evec0,evec1=evec1,evec2=evec2,kdota=k_row1@a_row2)")
ns = dict(np=np, Math=Math, if_then_else=if_then_else, cos_of_acos_divided_by_3=TM.cos_of_acos_divided_by_3)
exec(src, ns)
f = ns['eig_dbg']
A = onp.array([[ 1.6402282062906002 ,  0.4161631135156594 , -0.13019047522572513],
       [ 0.4161631135156594 ,  1.3104393909107994 ,  0.19162244678564916],
       [-0.13019047522572513,  0.19162244678564916,  1.8630279222260575 ]])
As = A/onp.abs(A).sum(axis=1).max()
s = jax.jit(f)(np.array(As))
v = jax.jit(jax.vmap(f))(np.array(onp.tile(As,(2,1,1))))
for k in s:
    a=onp.array(s[k]); b=onp.array(v[k][0])
    print(k, a, b, "" if onp.array_equal(a,b) else "   <<<< DIFF")
print("-----")
src2 = inspect.getsource(TM.eigen_sym33_non_unit).replace("def eigen_sym33_non_unit(tensor):","def eig2(tensor):").replace("    return evals[idx],evecs[:,idx]","    return evals, evecs, idx, evals[idx], evecs[:,idx]")
exec(src2, ns); g=ns['eig2']
for name,res in [("single",jax.jit(g)(np.array(As))),("vmap",jax.tree_util.tree_map(lambda x:x[0], jax.jit(jax.vmap(g))(np.array(onp.tile(As,(2,1,1))))))]:
    evals,evecs,idx,se,sv = [onp.array(r) for r in res]
    print(name,"evals",evals,"idx",idx); print("evecs\n",evecs); print("sorted evecs\n",sv)
    n = sv/onp.linalg.norm(sv,axis=0); print("orth err", onp.abs(n.T@n-onp.eye(3)).max())
