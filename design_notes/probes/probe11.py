import sys; sys.path.insert(0,'/tmp/probe/shim')
import jax, jax.numpy as np, numpy as onp
from optimism import EquationSolver as es, Objective
from optimism.inverse import NonlinearSolve
def energy(x, p):
    d = p[2]; b=p[0]
    return 0.5*x@(np.diag(np.array([1.,2.,3.]))@x) + 0.1*np.sum(x**4) - d@x - b[0]*x[0]
x0=np.zeros(3); p=Objective.Params(np.array([0.2]),None,np.array([1.,0.5,-0.3]))
obj=Objective.Objective(energy,x0,p)
settings=es.get_settings(debug_info=False)
def qoi(d):
    x = NonlinearSolve.nonlinear_solve(obj, settings, x0, d)
    return np.sum(x**2)
try:
    print(jax.grad(qoi)(p[2]))
except Exception as ex: print("nonlinear_solve grad EXC",type(ex).__name__,str(ex)[:200])
def qoi2(pp):
    x = NonlinearSolve.nonlinear_solve_with_state(obj, settings, x0, pp)
    return np.sum(x**2)
try:
    print(jax.grad(qoi2)(p))
except Exception as ex: print("with_state grad EXC",type(ex).__name__,str(ex)[:300])
