import sys, io, contextlib; sys.path.insert(0,'/tmp/probe/shim')
import jax, jax.numpy as np, numpy as onp
from optimism.material import J2Plastic
rng=onp.random.default_rng(0)
E=100.; nu=0.3; Y0=1.0; mu=0.5*E/(1+nu)
cfgs=[('lin',{'hardening model':'linear','hardening modulus':5.0}),('perfect',{'hardening model':'linear','hardening modulus':0.0}),
 ('power',{'hardening model':'power law','hardening exponent':3.0,'reference plastic strain':0.01}),
 ('rate',{'hardening model':'linear','hardening modulus':5.0,'rate sensitivity':'power law','rate sensitivity stress':0.5,'rate sensitivity exponent':2.0,'reference plastic strain rate':1.0})]
for kin in ('small deformations','large deformations'):
  for name,h in cfgs:
    props={'elastic modulus':E,'poisson ratio':nu,'yield strength':Y0,'kinematics':kin}; props.update(h)
    m=J2Plastic.create_material_model_functions(props); upd=jax.jit(m.compute_state_new)
    st0=m.compute_initial_state()
    # pure shear scaled to sit exactly at yield: mises = sqrt(3)*mu*gamma -> gamma_y = Y0/(sqrt(3) mu)
    gy=Y0/(onp.sqrt(3)*mu)
    out=[]
    for fac in (1-1e-6,1-1e-12,1.0,1+1e-12,1+1e-9,1+1e-6,1+1e-3,2.0,50.0):
        for dt in (1e-8,1.0,1e6):
            H=onp.zeros((3,3)); H[0,1]=H[1,0]=0.5*gy*fac
            s=onp.array(upd(np.array(H),st0,dt))
            out.append((fac,dt,s[0],onp.isfinite(s).all()))
    bad=[o for o in out if (not o[3]) or o[2]<0]
    print(kin,name,"nonfinite/neg:",bad[:4], "eqps@fac:", {o[0]:float('%.3g'%o[2]) for o in out if o[1]==1.0})
