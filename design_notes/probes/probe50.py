import sys, io, contextlib; sys.path.insert(0,'/tmp/probe/shim')
import jax, jax.numpy as np, numpy as onp
from optimism import Mesh, FunctionSpace as FS, QuadratureRule as QR, Mechanics, Interpolants
from optimism.inverse import AdjointFunctionSpace as AFS, MechanicsInverse as MI
from optimism.material import J2Plastic, Neohookean
rng=onp.random.default_rng(0)
for order in (1,2):
  for mode in ('cartesian','axisymmetric'):
    mesh=Mesh.construct_structured_mesh(4,3,[0.5,1.5],[0.,1.],elementOrder=order)
    q=QR.create_quadrature_rule_on_triangle(2*order)
    newc=mesh.coords+np.array(0.03*rng.normal(size=mesh.coords.shape)) if order==1 else mesh.coords  # keep affine for order 2
    if order==2:
        base=Mesh.construct_structured_mesh(4,3,[0.5,1.5],[0.,1.]); base=Mesh.mesh_with_coords(base,base.coords+np.array(0.03*rng.normal(size=base.coords.shape)))
        mesh2=Mesh.create_higher_order_mesh_from_simplex_mesh(base,2); newc=mesh2.coords
    shapeOnRef=Interpolants.compute_shapes(mesh.parentElement,q.xigauss)
    a=AFS.construct_function_space_for_adjoint(newc,shapeOnRef,mesh,q,mode)
    b=FS.construct_function_space(Mesh.mesh_with_coords(mesh,newc),q,mode)
    print(order,mode,"shapes",float(np.abs(a.shapes-b.shapes).max()),"vols",float(np.abs(a.vols-b.vols).max()),"grads",float(np.abs(a.shapeGrads-b.shapeGrads).max()),"coords same",bool((a.mesh.coords==b.mesh.coords).all()))
# multi-block J2
mesh=Mesh.construct_structured_mesh(4,4,[0.,1.],[0.,1.])
ne=mesh.conns.shape[0]; perm=rng.permutation(ne); blocks={'a':np.array(onp.sort(perm[:5])),'b':np.array(onp.sort(perm[5:11])),'c':np.array(onp.sort(perm[11:]))}
mesh=Mesh.mesh_with_blocks(mesh,blocks)
q=QR.create_quadrature_rule_on_triangle(2); fs=FS.construct_function_space(mesh,q)
props={'elastic modulus':100.,'poisson ratio':0.3,'yield strength':1.0,'hardening model':'linear','hardening modulus':5.0,'kinematics':'large deformations'}
mat=J2Plastic.create_material_model_functions(props)
single=Mechanics.create_mechanics_functions(fs,'plane strain',mat); multi=Mechanics.create_multi_block_mechanics_functions(fs,'plane strain',{k:mat for k in blocks})
U=np.array(0.03*rng.normal(size=mesh.coords.shape)); s0=single.compute_initial_state(); m0=multi.compute_initial_state()
print("init state equal",bool((s0==m0).all()),s0.shape,m0.shape)
s1=single.compute_updated_internal_variables(U,s0,1.0); m1=multi.compute_updated_internal_variables(U,m0,1.0)
print("state upd diff",float(np.abs(s1-m1).max()),"yielded pts",int((s1[...,0]>0).sum()))
U2=U*1.5
print("energy diff",abs(float(single.compute_strain_energy(U2,s1,1.0)-multi.compute_strain_energy(U2,m1,1.0))),"stiff diff",float(np.abs(single.compute_element_stiffnesses(U2,s1,1.0)-multi.compute_element_stiffnesses(U2,m1,1.0)).max()))
