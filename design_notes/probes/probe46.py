import sys, io, contextlib; sys.path.insert(0,'/tmp/probe/shim')
import jax, jax.numpy as np, numpy as onp
from optimism import AlSolver, EquationSolver as es, Objective
from optimism.ConstrainedObjective import ConstrainedObjective
rng=onp.random.default_rng(1)
stats=dict(runs=0,ret=0,exc=0)
for t in range(36):
    n=int(rng.integers(2,6))
    M=rng.normal(size=(n,n)); A=M@M.T+0.5*onp.eye(n); xs=rng.normal(size=n)
    cls=['weak','dup','infeas_start','active','inactive','mixed'][t%6]
    # construct optimum xs with chosen active set: c_i(x)=g_i.(x-xs)+s_i>=0
    m=int(rng.integers(1,5)); G=rng.normal(size=(m,n)); s=onp.zeros(m); lam=onp.zeros(m)
    if cls=='weak': s[:]=0; lam[:]=0
    elif cls=='active': lam[:]=onp.abs(rng.normal(size=m))+0.1
    elif cls=='inactive': s[:]=onp.abs(rng.normal(size=m))+0.1
    elif cls=='mixed': 
        act=rng.random(m)<0.5; lam[act]=onp.abs(rng.normal(size=act.sum()))+0.1; s[~act]=onp.abs(rng.normal(size=(~act).sum()))+0.1
    elif cls=='dup': G=onp.vstack([G,G[:1]]); lam=onp.zeros(m+1); lam[0]=0.7; lam[-1]=0.4; s=onp.zeros(m+1); s[1:m]=1.0; m=m+1
    elif cls=='infeas_start': lam[:]=onp.abs(rng.normal(size=m))+0.1
    b=A@xs-G.T@lam   # grad f(xs)=A xs - b = G^T lam
    f=lambda x,p: 0.5*x@(np.array(A)@x)-np.array(b)@x
    c=lambda x,p: np.array(G)@(x-np.array(xs))+np.array(s)
    x0=np.array(xs+rng.normal(size=n)*(5 if cls=='infeas_start' else 1))
    lam0=np.array(onp.abs(rng.normal(size=m))); kap0=np.ones(m)*10**rng.uniform(-1,1)
    buf=io.StringIO(); stats['runs']+=1
    hist=[]
    with contextlib.redirect_stdout(buf):
        obj=ConstrainedObjective(f,c,x0,None,lam0,kap0)
        try:
            x=AlSolver.augmented_lagrange_solve(obj,x0,None,AlSolver.get_settings(use_second_order_update=bool(t%2)),es.get_settings(debug_info=False),callback=lambda x,p: hist.append((onp.array(obj.lam),onp.array(obj.kappa))),useWarmStart=False)
        except Exception as ex:
            stats['exc']+=1; print(cls,"EXC",type(ex).__name__,str(ex)[:60]); continue
    stats['ret']+=1
    x=onp.array(x); l=onp.array(obj.lam); cv=G@(x-xs)+s
    print(cls,"2nd",bool(t%2),"iters",len(hist),"dx %.1e kkt %.1e minc %.1e minlam %.1e comp %.1e kmax/k0 %.0f lam>=0 %s kmono %s"%(onp.linalg.norm(x-xs),onp.linalg.norm(A@x-b-G.T@l),cv.min(),l.min(),onp.abs(l*cv).max(),(onp.array(obj.kappa)/onp.array(kap0)).max(),all((h[0]>=0).all() for h in hist[1:]),all((hist[i+1][1]>=hist[i][1]).all() for i in range(len(hist)-1))))
print(stats)
