import sys; sys.path.insert(0,'/tmp/probe/shim')
import jax, jax.numpy as np, numpy as onp
from optimism import SmoothFunctions as SF
def stable(x,y,eps):
    safeEps=np.where(eps>SF.safeTol,eps,SF.safeTol); xmy=x-y
    justMin=np.where(x<y,x,y); inside=np.abs(xmy)<eps
    xs=np.where(inside,x,0.0); ys=np.where(inside,y,0.0); d=xs-ys
    return np.where(inside, 0.5*(xs+ys)-0.25*safeEps-0.25*d*d/safeEps, justMin)
f=jax.jit(SF.min_base); fs=jax.jit(stable); g=jax.jit(jax.grad(SF.min_base,argnums=(0,1))); gs=jax.jit(jax.grad(stable,argnums=(0,1)))
rng=onp.random.default_rng(0)
for name,F,G in (("orig",f,g),("stable",fs,gs)):
    w=dict(above=0,below=0,djump=0)
    for t in range(4000):
        eps=10**rng.uniform(-10,0); y=rng.normal()*10**rng.uniform(-3,3); fr=rng.choice([1.0,0.999999,0.5,0.0,1e-9]); x=y+eps*fr*rng.choice([-1,1])
        v=float(F(x,y,eps)); m=min(x,y); ulp=16*2.2e-16*max(abs(x),abs(y),eps)
        w['above']=max(w['above'],(v-m)/ulp); w['below']=max(w['below'],((m-v)-eps/4)/ulp)
        gx,gy=G(x,y,eps); d=x-y
        if abs(d)<eps: ex=(0.5-0.5*d/eps,0.5+0.5*d/eps)
        else: ex=(1.0,0.0) if x<y else (0.0,1.0)
        w['djump']=max(w['djump'],abs(float(gx)-ex[0]),abs(float(gy)-ex[1]))
    print(name,w)
print("witness: x=1, y=1+0.5e-10, eps=1e-10 ->", float(f(1.0,1.0+0.5e-10,1e-10))-1.0, " stable:", float(fs(1.0,1.0+0.5e-10,1e-10))-1.0, " exact: -(eps-|d|)^2/(4eps) =", -(0.5e-10)**2/(4e-10))
