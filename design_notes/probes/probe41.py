import sys; sys.path.insert(0,'/tmp/probe/shim')
import jax, jax.numpy as np, numpy as onp
from fractions import Fraction as Fr
from optimism import TensorMath as TM
rng=onp.random.default_rng(0)
def det3(M): return M[0][0]*(M[1][1]*M[2][2]-M[1][2]*M[2][1])-M[0][1]*(M[1][0]*M[2][2]-M[1][2]*M[2][0])+M[0][2]*(M[1][0]*M[2][1]-M[1][1]*M[2][0])
worst=dict(detp=0,inv=0,polR=0,polRU=0)
f_det=jax.jit(TM.detpIm1); f_inv=jax.jit(TM.inv); f_pol=jax.jit(TM.right_polar_decomposition)
for t in range(3000):
    s=10**rng.uniform(-12,0); A=rng.normal(size=(3,3))*s
    M=[[Fr(float(A[i,j]))+(1 if i==j else 0) for j in range(3)] for i in range(3)]; exact=float(det3(M)-1)
    # condition: sum of |terms|
    v=float(f_det(np.array(A))); worst['detp']=max(worst['detp'],abs(v-exact)/max(onp.abs(A).max(),1e-300))
    F=rng.normal(size=(3,3))+2*onp.eye(3)
    if onp.linalg.det(F)<0.1: continue
    Fi=onp.array(f_inv(np.array(F))); worst['inv']=max(worst['inv'],onp.abs(Fi@F-onp.eye(3)).max()/onp.linalg.cond(F))
    R,U=f_pol(np.array(F)); R=onp.array(R);U=onp.array(U); worst['polR']=max(worst['polR'],onp.abs(R.T@R-onp.eye(3)).max()/onp.linalg.cond(F)); worst['polRU']=max(worst['polRU'],onp.abs(R@U-F).max())
print(worst)
