import sys, io, contextlib; sys.path.insert(0,'/tmp/probe/shim')
import jax, jax.numpy as np, numpy as onp
from optimism import EquationSolver as es
from scipy.stats import ortho_group
rng=onp.random.default_rng(0)
stats={}
worst=dict(norm=0,cauchy=-1e9,bnd=0,res=0,up=-1e9)
for t in range(600):
    n=int(rng.integers(1,25))
    Q=ortho_group.rvs(n,random_state=int(rng.integers(1<<31))) if n>1 else onp.eye(1)
    kind=t%4
    sig=10**rng.uniform(-3,3,n)
    if kind==1: sig[rng.random(n)<0.4]*=-1
    if kind==2: sig[rng.random(n)<0.3]=0
    if kind==3 and n>2: sig[1]=sig[0]
    H=Q@onp.diag(sig)@Q.T; H=0.5*(H+H.T)
    g=rng.normal(size=n)*10**rng.uniform(-3,3)
    D=10**rng.uniform(-6,6)
    pk=t%3
    if pk==0: P=onp.eye(n)
    elif pk==1:
        Hp=Q@onp.diag(onp.abs(sig)+1e-3)@Q.T; P=onp.linalg.inv(Hp); P=0.5*(P+P.T)
    else:
        M=rng.normal(size=(n,n)); Mm=M@M.T+n*onp.eye(n)*10**rng.uniform(-2,1); P=onp.linalg.inv(Mm); P=0.5*(P+P.T)
    Minv=onp.linalg.inv(P)
    pre=bool(t%2)
    s=es.get_settings(use_preconditioned_inner_product_for_cg=pre,max_cg_iters=int(rng.integers(1,60)),cg_tol=10**rng.uniform(-12,-4),debug_info=False)
    z,cp,typ,its=es.solve_trust_region_minimization(np.zeros(n),np.array(g),lambda v:np.array(H)@v,lambda v:np.array(P)@v,D,s)
    z=onp.array(z); stats[typ]=stats.get(typ,0)+1
    nrm=onp.sqrt(z@Minv@z) if pre else onp.linalg.norm(z)
    m=lambda v: g@v+0.5*v@H@v
    # cauchy point along -P g in configured norm
    d=-P@g; dn=onp.sqrt(d@Minv@d) if pre else onp.linalg.norm(d)
    curv=d@H@d; tmax=D/dn
    tstar=min(tmax,(-(g@d))/curv) if curv>0 else tmax
    mc=m(tstar*d)
    worst['norm']=max(worst['norm'],nrm/D-1)
    worst['up']=max(worst['up'],m(z)/(abs(mc)+1e-300))
    rel=(m(z)-mc)/(abs(mc)+1e-300); worst['cauchy']=max(worst['cauchy'],rel)
    if typ in('boundary','neg curve'): worst['bnd']=max(worst['bnd'],abs(nrm/D-1))
    if typ=='interior' and its>0:
        tolr=max(s.cg_tol, s.cg_inexact_solve_ratio*onp.linalg.norm(g)); worst['res']=max(worst['res'],onp.linalg.norm(H@z+g)/tolr)
    if rel>1e-6 or nrm/D-1>1e-6: print("t",t,"n",n,"kind",kind,"pk",pk,"pre",pre,"typ",typ,"its",its,"norm/D",nrm/D,"m",m(z),"mc",mc)
print(stats,worst)
