import sys, io, contextlib, time; sys.path.insert(0,'/tmp/probe/shim')
if len(sys.argv)>3 and sys.argv[3]=='fix': sys.path.insert(0,'/tmp/repo_fix')
import jax, jax.numpy as np, numpy as onp
from optimism import TrustRegionSPG as spg, Objective
rng=onp.random.default_rng(int(sys.argv[1]))
def fam_quad(x,p): A,b,c=p[0]; return 0.5*x@(A@x)-b@x
def fam_quartic(x,p): A,b,c=p[0]; return 0.5*x@(A@x)-b@x+c*np.sum(x**4)
def fam_rosen(x,p): A,b,c=p[0]; return np.sum(c*100*(x[1:]-x[:-1]**2)**2+(1-x[:-1])**2)
def fam_cos(x,p): A,b,c=p[0]; return 0.5*x@(A@x)-b@x+c*np.sum(np.cos(3*x))
def fam_flat(x,p): A,b,c=p[0]; return -np.exp(-0.5*x@(A@x))
fams=dict(quad=fam_quad,quartic=fam_quartic,rosen=fam_rosen,cos=fam_cos,flat=fam_flat)
stats={}
for trial in range(int(sys.argv[2])):
    name=list(fams)[trial%len(fams)]; f=fams[name]; n=int(rng.integers(2,8))
    M=rng.normal(size=(n,n)); A=M@M.T/n+0.1*onp.eye(n)
    if name in('quartic','cos'): A=A-0.8*onp.eye(n)
    b=rng.normal(size=n)*2; c=10**rng.uniform(-2,0); p=Objective.Params((np.array(A),np.array(b),c))
    lb=-10**rng.uniform(-2,1,n); ub=10**rng.uniform(-2,1,n); m=rng.random(n)
    if name not in ('quad','rosen','cos'): pass
    else: lb[m<0.2]=-onp.inf; ub[(m>0.2)&(m<0.4)]=onp.inf
    if name=='cos': lb=onp.maximum(lb,-50); ub=onp.minimum(ub,50)  # nonconvex: keep bounded
    deg=(m>0.92); ub[deg]=lb[deg]=0.3
    x0=onp.clip(rng.normal(size=n),lb,ub)
    if trial%4==0: x0=onp.where(onp.isfinite(lb),lb,x0)
    s=spg.get_settings(debug_info=False,spg_use_nonmonotone=bool(trial%2),tr_size=10**rng.uniform(-2,2),max_spg_iters=int(rng.choice([2,10,25])),max_trust_iters=int(rng.choice([5,30,100])),tol=10**rng.uniform(-10,-6))
    fj=jax.jit(f); gj=jax.jit(jax.grad(f)); tr=[]
    with contextlib.redirect_stdout(io.StringIO()):
        obj=Objective.Objective(f,np.array(x0),p); obj.update_precond(np.array(x0)) if False else None
        try:
            x,ok=spg.bound_constrained_trust_region_minimize(obj,np.array(x0),np.column_stack((lb,ub)),s,callback=lambda x,o: tr.append(onp.array(x)))
        except Exception as ex:
            k=(name,'EXC '+type(ex).__name__+' '+str(ex)[:30]); stats[k]=stats.get(k,0)+1; continue
    chain=[float(fj(np.array(x0),p))]+[float(fj(np.array(t),p)) for t in tr]
    key=[]
    up=[i for i in range(1,len(chain)) if chain[i]>chain[i-1]+8*2.2e-16*max(1,abs(chain[i]),abs(chain[i-1]))]
    if up: key.append('UPHILL@final+ok' if (up==[len(chain)-1] and ok) else 'UPHILL')
    inf=max([max((lb-t).max(),(t-ub).max())/max(1,onp.abs(t).max()) for t in tr]+[0])
    if inf>8*2.2e-16: key.append('INFEAS %.0e'%inf)
    if ok:
        xr=onp.array(x); g=onp.array(gj(x,p)); opt=onp.linalg.norm(onp.clip(xr-g,lb,ub)-xr)
        if opt>=s.tol: key.append('FLAG')
    if len(tr) and not (onp.array(x)==tr[-1]).all(): key.append('RET!=LAST')
    k=(name,'ok' if ok else 'fail',tuple(key)); stats[k]=stats.get(k,0)+1
    if key and key!=['UPHILL@final+ok']: print("CASE",trial,name,key,chain[:5])
for k,v in sorted(stats.items(),key=str): print(k,v)
