import sys; sys.path.insert(0,'/tmp/probe/shim')
import jax, jax.numpy as np, numpy as onp
from optimism import TensorMath as TM
from scipy.spatial.transform import Rotation
rng = onp.random.default_rng(0)
f = jax.jit(jax.vmap(TM.eigen_sym33_unit))
def gen(n, gapexp, scaleexp, inplane=False):
    out=[]
    for i in range(n):
        R = Rotation.random(random_state=rng.integers(1<<31)).as_matrix()
        if inplane:
            th = rng.uniform(0,2*onp.pi); c,s=onp.cos(th),onp.sin(th)
            R = onp.array([[c,-s,0],[s,c,0],[0,0,1.]])
        base = rng.uniform(-2,2,3)
        kind = rng.integers(0,4)
        g = 0.0 if gapexp is None else 10.0**gapexp
        if kind==1: base[1]=base[0]+g
        if kind==2: base[2]=base[1]+g
        if kind==3: base[1]=base[0]+g; base[2]=base[0]-g*rng.uniform(0,1)
        A = R@onp.diag(base)@R.T
        A = 0.5*(A+A.T)*10.0**scaleexp
        out.append(A)
    return onp.array(out)
for inplane in (False,True):
  for scaleexp in (0,-20,20,-150, 150):
    for gapexp in (None,-15,-12,-8,-4,0):
        A = gen(4000, gapexp, scaleexp, inplane)
        lam,V = f(np.array(A))
        lam=onp.array(lam);V=onp.array(V)
        rec = onp.einsum('nij,nj,nkj->nik',V,lam,V)
        sc = onp.abs(A).sum(axis=2).max(axis=1)
        e_rec = (onp.abs(rec-A).max(axis=(1,2))/sc)
        e_orth = onp.abs(onp.einsum('nji,njk->nik',V,V)-onp.eye(3)).max(axis=(1,2))
        ref = onp.linalg.eigvalsh(A)
        e_val = onp.abs(lam-ref).max(axis=1)/sc
        asc = (onp.diff(lam,axis=1)>=0).all()
        print(inplane, scaleexp, gapexp, "rec %.2e orth %.2e val %.2e asc %s nan %d"%(onp.nanmax(e_rec), onp.nanmax(e_orth), onp.nanmax(e_val), asc, onp.isnan(rec).any(axis=(1,2)).sum()))
