import sys, io, contextlib; sys.path.insert(0,'/tmp/probe/shim')
import jax, jax.numpy as np, numpy as onp
from optimism.material import J2Plastic
from optimism import TensorMath as TM
rng=onp.random.default_rng(0)
E=100.; nu=0.3; Y0=1.0; mu=0.5*E/(1+nu)
hard=[{'hardening model':'linear','hardening modulus':5.0},
      {'hardening model':'voce','saturation strength':2.0,'reference plastic strain':0.05},
      {'hardening model':'power law','hardening exponent':3.0,'reference plastic strain':0.01},
      {'hardening model':'linear','hardening modulus':5.0,'rate sensitivity':'power law','rate sensitivity stress':0.5,'rate sensitivity exponent':2.0,'reference plastic strain rate':1.0}]
for kin in ['large deformations','small deformations']:
  for hi,h in enumerate(hard):
    props={'elastic modulus':E,'poisson ratio':nu,'yield strength':Y0,'kinematics':kin}; props.update(h)
    m=J2Plastic.create_material_model_functions(props)
    upd=jax.jit(m.compute_state_new); W=jax.jit(m.compute_energy_density); P=jax.jit(jax.grad(m.compute_energy_density))
    worst=dict(deqps=0,det=0,yieldv=0,idem=0,Wdiff=0,nan=0)
    for path in range(30):
        st=m.compute_initial_state(); H=onp.zeros((3,3))
        for step in range(12):
            dH=rng.normal(size=(3,3))*10**rng.uniform(-4,-1.3); dH[2,:2]=0; dH[:2,2]=0
            H=H+dH; dt=10**rng.uniform(-2,1)
            if onp.linalg.det(H+onp.eye(3))<0.2: H=H-dH; continue
            stn=upd(np.array(H),st,dt)
            if not onp.isfinite(onp.array(stn)).all(): worst['nan']+=1; break
            worst['deqps']=min(worst['deqps'],float(stn[0]-st[0]))
            if kin.startswith('large'):
                worst['det']=max(worst['det'],abs(float(onp.linalg.det(onp.array(stn[1:]).reshape(3,3)))-1))
            # stress after commit; mises vs flow stress
            S=onp.array(P(np.array(H),stn,dt))
            if kin.startswith('large'):
                F=H+onp.eye(3); tau=S@F.T
            else: tau=S
            dev=tau-onp.trace(tau)/3*onp.eye(3); mises=onp.sqrt(1.5*(dev*dev).sum())
            if hi<3:
                from optimism.material import Hardening
                hm=Hardening.create_hardening_model(props); Y=float(hm.compute_flow_stress(stn[0],stn[0],dt))
                worst['yieldv']=max(worst['yieldv'],(mises-Y)/Y0)
                st2=upd(np.array(H),stn,dt); worst['idem']=max(worst['idem'],float(onp.abs(onp.array(st2-stn)).max()))
                worst['Wdiff']=max(worst['Wdiff'],abs(float(W(np.array(H),st,dt)-W(np.array(H),stn,dt))))
            st=stn
    print(kin,hi,worst)
