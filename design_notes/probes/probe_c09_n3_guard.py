import sys, os
sys.path.insert(0, os.environ.get('VERIF_REPO','/repo'))
import jax, jax.numpy as np, numpy as onp
from optimism.material import J2Plastic
nu=0.3; Y0=1.0
rng=onp.random.default_rng(0)
for kin in ('small deformations',):
  for ys in (1e-6,1e-7,3e-8,1e-8,3e-9,1e-9):
    mu=Y0/(3*ys); E=2*mu*(1+nu)
    props={'elastic modulus':E,'poisson ratio':nu,'yield strength':Y0,'kinematics':kin,'hardening model':'linear','hardening modulus':E/100}
    m=J2Plastic.create_material_model_functions(props); upd=jax.jit(m.compute_state_new)
    worst=0; npl=0; nn=0
    for h in range(20):
        st=m.compute_initial_state(); H=onp.zeros((3,3))
        for k in range(15):
            H=H+rng.normal(size=(3,3))*ys*0.7
            s=onp.array(upd(np.array(H),st,1.0))
            if not onp.isfinite(s).all(): nn+=1; break
            ee=0.5*(H+H.T)-s[1:].reshape(3,3); d=ee-onp.trace(ee)/3*onp.eye(3); mises=2*mu*onp.sqrt(1.5*(d*d).sum())
            Y=Y0+E/100*s[0]; worst=max(worst,(mises-Y)/Y0); npl+= s[0]>st[0]; st=s
    print(kin,'yield strain %g'%ys,'|dev Ee| at yield %.2g'%(Y0/(2*mu*1.2247)),'worst (mises-Y)/Y0 %.3g'%worst,'plastic steps',npl,'nan',nn)
