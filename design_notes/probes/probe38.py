import sys, io, contextlib; sys.path.insert(0,'/tmp/probe/shim')
import jax, jax.numpy as np, numpy as onp
from optimism import EquationSolver as es, Objective, TrustRegionSPG as spg, AlSolver, BoundConstrainedSolver as BCS, BoundConstrainedObjective as BCO
from optimism.ConstrainedObjective import ConstrainedObjective
from scipy.sparse import csc_matrix
from scipy.optimize import minimize
rng=onp.random.default_rng(0); buf=io.StringIO()
n=6; M=rng.normal(size=(n,n)); A=M@M.T+onp.eye(n); A=onp.diag(10**rng.uniform(-2,2,n))@A@onp.diag(10**rng.uniform(-2,2,n)); A=0.5*(A+A.T); 
D=10**rng.uniform(-2,2,n); A=onp.diag(D)@(M@M.T+onp.eye(n))@onp.diag(D)
B=rng.normal(size=(n,3))*D[:,None]
def f(x,p): return 0.5*x@(np.array(A)@x)-(np.array(B)@p[0])@x
class PS(Objective.PrecondStrategy):
    def __init__(self): pass
    def initialize(self,x,p): self.K=csc_matrix(A)
p0=Objective.Params(np.array([0.1,0.2,0.3])); p1=Objective.Params(np.array([0.5,-0.2,0.9]))
xs0=onp.linalg.solve(A,B@onp.array(p0[0])); xs1=onp.linalg.solve(A,B@onp.array(p1[0]))
lb=xs1-onp.abs(xs1)*rng.choice([0.5,-0.3],n)-0.0; ub=lb+onp.abs(xs1)*2+1e-3   # some bounds active
ref=minimize(lambda y:0.5*y@A@y-(B@onp.array(p1[0]))@y,onp.clip(xs0,lb,ub),jac=lambda y:A@y-B@onp.array(p1[0]),bounds=list(zip(lb,ub)),method='L-BFGS-B',options={'ftol':1e-18,'gtol':1e-14,'maxiter':10000})
for scaled in (False,True):
    with contextlib.redirect_stdout(buf):
        obj=Objective.ScaledObjective(f,np.array(xs0),p0,PS()) if scaled else Objective.Objective(f,np.array(xs0),p0)
        x,ok=spg.solve(obj,np.array(onp.clip(xs0,lb,ub)),p1,np.array(lb),np.array(ub),spg.get_settings(debug_info=False,tol=1e-10),useWarmStart=False)
    x=onp.array(x)
    print("SPG scaled",scaled,"ok",ok,"relerr vs ref %.1e"%(onp.abs(x-ref.x)/onp.abs(ref.x).max()).max(),"feas",bool((x>=lb-1e-12*onp.abs(lb)).all() and (x<=ub+1e-12*onp.abs(ub)).all()),"p set",bool((obj.p[0]==p1[0]).all()))
