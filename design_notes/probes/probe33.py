import sys, io, contextlib; sys.path.insert(0,'/tmp/probe/shim')
import jax, jax.numpy as np, numpy as onp
from optimism import EquationSolver as es, Objective
from optimism.inverse import NonlinearSolve as NS
# monkeypatch: tolerate the stale 7-arg call by adapting the callee (simulates the planned fix)
_orig=es.solve_trust_region_minimization
def compat(*a):
    if len(a)==7: a=a[:4]+a[5:]
    return _orig(*a)
es.solve_trust_region_minimization=compat
A=onp.diag([1.,2.,3.])+0.3
def energy(x,p):
    b=p[0]; s=p[1]; d=p[2]; t=p[4]
    return 0.5*x@(np.array(A)@x)+0.1*np.sum(x**4)*(1+d[0]**2) - (d[1:]@x) - b[0]*x[0]*np.sin(b[1]) + s[0]*x[1]**2 + t[0]*x[2]
p=Objective.Params(np.array([0.2,0.7]),np.array([0.4]),np.array([0.3,1.,0.5,-0.3]),None,np.array([0.9]))
x0=np.zeros(3)
buf=io.StringIO()
with contextlib.redirect_stdout(buf):
    obj=Objective.Objective(energy,x0,p)
settings=es.get_settings(debug_info=False,tol=1e-12,cg_tol=1e-14)
v=np.array([0.3,-1.2,0.8])
def q1(d):
    return v@NS.nonlinear_solve(obj,settings,x0,d)
def q2(pp):
    return v@NS.nonlinear_solve_with_state(obj,settings,x0,pp)
# dense IFT
g=jax.grad(energy)
with contextlib.redirect_stdout(buf):
    xs,ok=es.nonlinear_equation_solve(obj,x0,p,settings)
H=onp.array(jax.jacfwd(g)(xs,p))
lam=-onp.linalg.solve(H,onp.array(v))
ref={k:lam@onp.array(jax.jacfwd(lambda q: g(xs,Objective.param_index_update(p,k,q)))(p[k])) for k in (0,1,2,4)}
try:
    with contextlib.redirect_stdout(buf): g1=jax.grad(q1)(p[2])
    print("nonlinear_solve dp2",onp.array(g1),"ref",ref[2])
except Exception as ex: print("q1 EXC",type(ex).__name__,str(ex)[:300])
try:
    with contextlib.redirect_stdout(buf): g2=jax.grad(q2)(p)
    for k in (0,1,2,4): print("with_state slot",k,onp.array(g2[k]),"ref",ref[k])
except Exception as ex: print("q2 EXC",type(ex).__name__,str(ex)[:300])
