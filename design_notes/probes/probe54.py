import sys, io, contextlib; sys.path.insert(0,'/tmp/pb/shim')
import jax, jax.numpy as np, numpy as onp
from optimism import EquationSolver as es, Objective, AlSolver, BoundConstrainedSolver as BCS, BoundConstrainedObjective as BCO, WarmStart
from optimism.ConstrainedObjective import ConstrainedObjective
from scipy.sparse import csc_matrix
from scipy.optimize import minimize
rng=onp.random.default_rng(0); buf=io.StringIO()
n=6; M=rng.normal(size=(n,n)); D=10**rng.uniform(-1.5,1.5,n); A=onp.diag(D)@(M@M.T+onp.eye(n))@onp.diag(D); B=rng.normal(size=(n,2))*D[:,None]
f=lambda x,p: 0.5*x@(np.array(A)@x)-(np.array(B)@p[0])@x
class PS(Objective.PrecondStrategy):
    def __init__(self): pass
    def initialize(self,x,p): self.K=csc_matrix(A)
idx=np.array([0,2,5])
ps=[Objective.Params(np.array(v)) for v in ([0.3,0.1],[1.0,-0.5],[-0.7,0.9],[2.0,2.0])]
def ref(p):
    r=minimize(lambda y:0.5*y@A@y-(B@onp.array(p[0]))@y,onp.ones(n),jac=lambda y:A@y-B@onp.array(p[0]),bounds=[(0,None) if i in (0,2,5) else (None,None) for i in range(n)],method='L-BFGS-B',options={'ftol':1e-18,'gtol':1e-13,'maxiter':5000}); return r.x
for scaled in (False,True):
  for warm in (False,True):
    x=np.ones(n)
    with contextlib.redirect_stdout(buf):
        bo=BCO.BoundConstrainedObjective(f,x,ps[0],idx,precondStrategy=PS() if scaled else None)
    out=[]
    for p in ps:
        try:
            with contextlib.redirect_stdout(buf):
                x=BCS.bound_constrained_solve(bo,x,p,AlSolver.get_settings(),es.get_settings(debug_info=False),useWarmStart=warm)
            r=ref(p); out.append("%.1e/%s"%(onp.abs(onp.array(x)-r).max()/onp.abs(r).max(), bool((bo.p[0]==p[0]).all())))
        except Exception as ex:
            out.append("EXC "+type(ex).__name__+" "+str(ex)[:50]); break
    print("scaled",scaled,"warm",warm,out)
