import sys; sys.path.insert(0,'/tmp/probe/shim')
import jax, jax.numpy as np, numpy as onp
from optimism.contact import MortarContact as MC, EdgeCpp
rng=onp.random.default_rng(0)
f_len=jax.jit(lambda a,b: MC.integrate_with_mortar(a,b,MC.compute_average_normal,lambda xa,xb,g:1.0))
f_gap=jax.jit(lambda a,b: MC.integrate_with_mortar(a,b,MC.compute_average_normal,lambda xa,xb,g:g))
bad=0
for t in range(400):
    # parallel horizontal segments: A on y=0 from a0..a1 (direction +x), B above at y=h direction -x (facing)
    a0,a1=sorted(rng.uniform(-2,2,2)); b0,b1=sorted(rng.uniform(-2,2,2)); h=rng.uniform(0.01,1)
    if a1-a0<1e-3 or b1-b0<1e-3: continue
    A=onp.array([[a0,0.],[a1,0.]]); B=onp.array([[b1,h],[b0,h]])
    ov=max(0,min(a1,b1)-max(a0,b0))
    th=rng.uniform(0,2*onp.pi); R=onp.array([[onp.cos(th),-onp.sin(th)],[onp.sin(th),onp.cos(th)]]); tr=rng.normal(size=2)
    L0=float(f_len(np.array(A),np.array(B))); G0=float(f_gap(np.array(A),np.array(B)))
    A2=A@R.T+tr; B2=B@R.T+tr
    L1=float(f_len(np.array(A2),np.array(B2))); G1=float(f_gap(np.array(A2),np.array(B2)))
    if abs(L0-ov)>1e-6 or abs(abs(G0)-ov*h)>1e-6 or abs(L0-L1)>1e-9 or abs(G0-G1)>1e-9 or not onp.isfinite([L0,G0,L1,G1]).all():
        bad+=1
        if bad<8: print("A",A.tolist(),"B",B.tolist(),"ov",ov,"L",L0,L1,"G",G0,G1,"ovh",ov*h)
print("bad",bad)
# cpp distance
g=jax.jit(EdgeCpp.cpp_distance); c=jax.jit(EdgeCpp.cpp)
badc=0
for t in range(2000):
    e=rng.normal(size=(2,2))*10**rng.uniform(-3,3); p=e[0]+rng.normal(size=2)*10**rng.uniform(-3,3)*onp.linalg.norm(e[1]-e[0])
    d=float(g(np.array(e),np.array(p))); q,tt=c(np.array(e),np.array(p)); q=onp.array(q)
    # reference distance
    v=e[1]-e[0]; s=onp.clip((p-e[0])@v/(v@v),0,1); ref=onp.linalg.norm(p-(e[0]+s*v))
    if abs(abs(d)-ref)>1e-9*max(ref,onp.linalg.norm(v)) or onp.linalg.norm(q-(e[0]+s*v))>1e-9*max(1e-300,onp.linalg.norm(v)+ref): badc+=1
print("cpp bad",badc)
