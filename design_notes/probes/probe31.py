import sys, io, contextlib; sys.path.insert(0,'/tmp/probe/shim')
import jax, jax.numpy as np, numpy as onp
from scipy.spatial.transform import Rotation
from optimism.material import LinearElastic
rng=onp.random.default_rng(0)
m=LinearElastic.create_material_model_functions({'elastic modulus':10.,'poisson ratio':0.3,'strain measure':'logarithmic'})
st=m.compute_initial_state()
P=jax.jit(jax.grad(m.compute_energy_density))
T=jax.jit(lambda H,V: jax.jvp(lambda h: jax.grad(m.compute_energy_density)(h,st,1.0),(H,),(V,))[1])
c8=onp.array([1/280,-4/105,1/5,-4/5,0,4/5,-1/5,4/105,-1/280])
def fd(fun,H,V,h): return sum(c*onp.array(fun(np.array(H+k*h*V))) for c,k in zip(c8,range(-4,5)) if c!=0)/h
for gapexp in (-1,-2,-3,-4,-5,-6,-8,-10,-12,-14,None):
    worst=0;w1=0
    for i in range(30):
        R=Rotation.random(random_state=int(rng.integers(1<<31))).as_matrix()
        a,b=onp.exp(rng.uniform(-0.3,0.3,2)); g=0 if gapexp is None else 10.0**gapexp
        U=R@onp.diag([a,a*(1+g),b])@R.T; H=U-onp.eye(3)
        V=rng.normal(size=(3,3)); V/=onp.linalg.norm(V)
        t=onp.array(T(np.array(H),np.array(V)))
        h=1e-4
        ref=fd(lambda X:P(X,st,1.0),H,V,h)
        worst=max(worst,onp.abs(t-ref).max()/onp.abs(ref).max())
        # first derivative check vs FD of W
        Wf=jax.jit(m.compute_energy_density)
        dW=fd(lambda X:Wf(X,st,1.0),H,V,h); w1=max(w1,abs(dW-(onp.array(P(np.array(H),st,1.0))*V).sum())/abs(dW))
    print("gap",gapexp,"tangent rel err %.1e  first-deriv rel err %.1e"%(worst,w1))
