import sys; sys.path.insert(0,'/tmp/probe/shim')
import jax, jax.numpy as np, numpy as onp, itertools
from optimism import Mesh, FunctionSpace as FS, QuadratureRule as QR, SparseMatrixAssembler as SMA, SmoothFunctions as SF
from optimism.contact import Friction, MortarContact
mesh=Mesh.construct_structured_mesh(2,2,[0.,1.],[0.,1.])
mesh=Mesh.mesh_with_nodesets(mesh,{'n%d'%i:np.array([i]) for i in range(4)})
fs=FS.construct_function_space(mesh,QR.create_quadrature_rule_on_triangle(1))
bad=0;n=0
for dim in (1,2,3):
    pairs=[(i,c) for i in range(4) for c in range(dim)]
    subsets=itertools.chain.from_iterable(itertools.combinations(pairs,k) for k in range(len(pairs)+1))
    for sub in subsets:
        if dim==3 and (hash(sub)%16): continue
        n+=1
        dm=FS.DofManager(fs,dim,[FS.EssentialBC('n%d'%i,c) for i,c in sub])
        isbc=onp.zeros((4,dim),bool)
        for i,c in sub: isbc[i,c]=True
        U=onp.arange(4*dim,dtype=float).reshape(4,dim)+0.5
        ok = set(dm.unknownIndices.tolist())|set(dm.bcIndices.tolist())==set(range(4*dim)) and not set(dm.unknownIndices.tolist())&set(dm.bcIndices.tolist())
        ok &= dm.get_unknown_size()==(~isbc).sum() and dm.get_bc_size()==isbc.sum()
        Uu=dm.get_unknown_values(np.array(U)); Ub=dm.get_bc_values(np.array(U)); ok &= bool((onp.array(dm.create_field(Uu,Ub))==U).all())
        for c in range(dim):
            sl=onp.array(dm.slice_unknowns_with_dof_indices(Uu,(slice(None),c))); ok&= bool((sl==U[:,c][~isbc[:,c]]).all())
        # hessian maps: encode
        nen=3; K=onp.zeros((2,nen,dim,nen,dim))
        for e in range(2):
            for a in range(nen):
                for i in range(dim):
                    for b in range(nen):
                        for j in range(dim): K[e,a,i,b,j]=1.0  # count multiplicity
        A=SMA.assemble_sparse_stiffness_matrix(K,onp.array(mesh.conns),dm).toarray()
        # expected multiplicity: number of elements containing both nodes
        conns=onp.array(mesh.conns); exp=onp.zeros((4*dim,4*dim))
        for e in range(2):
            for a in conns[e]:
                for b in conns[e]:
                    for i in range(dim):
                        for j in range(dim): exp[a*dim+i,b*dim+j]+=1
        unk=onp.array(dm.unknownIndices); ok&= bool((A==exp[onp.ix_(unk,unk)]).all())
        if not ok: bad+=1
print("dofmanagers",n,"bad",bad)
# C18 ulp switches
f=jax.jit(SF.min_base); g=jax.jit(jax.grad(SF.min_base,argnums=(0,1)))
rng=onp.random.default_rng(0); worst=dict(above=0,gap=0,asym=0,djump=0)
for t in range(3000):
    eps=10**rng.uniform(-10,0); y=rng.normal()*10**rng.uniform(-3,3); x=y+eps*rng.choice([-1,1])
    for k in range(-3,4):
        xx=x
        for _ in range(abs(k)): xx=onp.nextafter(xx, onp.inf if k>0 else -onp.inf)
        v=float(f(xx,y,eps)); m=min(xx,y)
        worst['above']=max(worst['above'],(v-m)/max(eps,abs(m)*1e-16)); worst['gap']=max(worst['gap'],(m-v)/eps)
        worst['asym']=max(worst['asym'],abs(v-float(f(y,xx,eps)))/max(abs(v),eps))
        gx,gy=g(xx,y,eps); ex=(1.0,0.0) if xx<y else (0.0,1.0)
        worst['djump']=max(worst['djump'],abs(float(gx)-ex[0]),abs(float(gy)-ex[1]))
print(worst)
