import sys, io, contextlib; sys.path.insert(0,'/tmp/probe/shim')
import jax, jax.numpy as np, numpy as onp
from scipy.spatial.transform import Rotation
from optimism.material import LinearElastic, J2Plastic
rng=onp.random.default_rng(0)
mods={'le-log':LinearElastic.create_material_model_functions({'elastic modulus':10.,'poisson ratio':0.3,'strain measure':'logarithmic'}),
      'j2':J2Plastic.create_material_model_functions({'elastic modulus':100.,'poisson ratio':0.3,'yield strength':1e3,'hardening model':'linear','hardening modulus':1.0})}
c8=onp.array([1/280,-4/105,1/5,-4/5,0,4/5,-1/5,4/105,-1/280])
def fd(fun,H,V,h): return sum(c*onp.array(fun(np.array(H+k*h*V))) for c,k in zip(c8,range(-4,5)) if c!=0)/h
for name,m in mods.items():
    st=m.compute_initial_state()
    P=jax.jit(jax.grad(m.compute_energy_density))
    T=jax.jit(lambda H,V: jax.jvp(lambda h: jax.grad(m.compute_energy_density)(h,st,1.0),(H,),(V,))[1])
    for cls in ('zero','uniax-axis','uniax-inplane','double-generic','distinct'):
        worst=0; nan=0
        for i in range(40):
            R=Rotation.random(random_state=int(rng.integers(1<<31))).as_matrix()
            a,b,c=onp.exp(rng.uniform(-0.3,0.3,3))
            if cls=='zero': U=onp.eye(3)
            elif cls=='uniax-axis': U=onp.diag([a,1,1])
            elif cls=='uniax-inplane':
                th=rng.uniform(0,2*onp.pi); cc,s=onp.cos(th),onp.sin(th); Rz=onp.array([[cc,-s,0],[s,cc,0],[0,0,1.]]); U=Rz@onp.diag([a,1,1])@Rz.T
            elif cls=='double-generic': U=R@onp.diag([a,a,b])@R.T
            else: U=R@onp.diag([a,b,c])@R.T
            H=U-onp.eye(3)
            V=rng.normal(size=(3,3)); V/=onp.linalg.norm(V)
            t=onp.array(T(np.array(H),np.array(V)))
            ref=fd(lambda X:P(X,st,1.0),H,V,1e-4)
            if not onp.isfinite(t).all(): nan+=1; continue
            worst=max(worst,onp.abs(t-ref).max()/max(1e-30,onp.abs(ref).max()))
        print(name,cls,"tangent rel err %.1e nan %d"%(worst,nan))
