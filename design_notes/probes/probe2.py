import sys; sys.path.insert(0,'/tmp/probe/shim')
import jax, jax.numpy as np
from optimism import EquationSolver as es, Objective
def energy(x, params):
    return -np.exp(-x[0]*x[0])
for x0,tr_size in [(0.6,2.0),(0.7,100.0),(0.69,1000.)]:
    x = np.array([x0]); p = Objective.Params(1.0)
    obj = Objective.Objective(energy, x, p)
    obj.update_precond(x); tr=[]
    sol, ok = es.trust_region_minimize(obj, x, es.get_settings(tr_size=tr_size, debug_info=False), callback=lambda x,o: tr.append((float(x[0]), float(o.value(x)))))
    print("START",x0, float(obj.value(x)), "->", sol, ok, tr)
