import sys; sys.path.insert(0,'/tmp/probe/shim')
import jax, jax.numpy as np, numpy as onp, itertools
from optimism import TensorMath as TM
onp.set_printoptions(precision=17, linewidth=200)
f1=jax.jit(TM.eigen_sym33_unit); fv=jax.jit(jax.vmap(TM.eigen_sym33_unit))
rng=onp.random.default_rng(3)
cases=[]
for t in range(300):
    a,b=rng.uniform(-2,2,2)
    for perm in ([a,a,b],[a,b,b],[a,b,a],[a,a,a],[0,0,b],[a,0,0],[0,0,0]):
        th=rng.uniform(0,2*onp.pi) if t%2 else 0.0; c,s=onp.cos(th),onp.sin(th)
        R=onp.array([[c,-s,0],[s,c,0],[0,0,1.]])
        A=R@onp.diag(perm)@R.T; A=0.5*(A+A.T); cases.append(A)
cases=onp.array(cases)
def errs(lam,V,A):
    rec=V@onp.diag(lam)@V.T; sc=max(onp.abs(A).max(),1e-300)
    return onp.abs(rec-A).max()/sc, onp.abs(V.T@V-onp.eye(3)).max()
bad1=0;badv=0
lamv,Vv=fv(np.array(cases)); lamv=onp.array(lamv);Vv=onp.array(Vv)
for i,A in enumerate(cases):
    l,V=f1(np.array(A)); e=errs(onp.array(l),onp.array(V),A)
    if not (e[0]<1e-12 and e[1]<1e-12):
        bad1+=1
        if bad1<4: print("single bad",A.tolist(),e)
    e=errs(lamv[i],Vv[i],A)
    if not (e[0]<1e-12 and e[1]<1e-12):
        badv+=1
        if badv<4: print("vmap bad",A.tolist(),e)
print("cases",len(cases),"single bad",bad1,"vmap bad",badv)
