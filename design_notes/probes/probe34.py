import sys; sys.path.insert(0,'/tmp/probe/shim')
import numpy as onp, netCDF4, json
from optimism import ReadExodusMesh, ReadMesh, Mesh
def write_exo(fn, coords, blocks, etype, nodesets, sidesets, names=True, fmt='NETCDF3_64BIT_OFFSET', elem_map=True):
    d=netCDF4.Dataset(fn,'w',format=fmt)
    d.createDimension('len_name',256); d.createDimension('time_step',None); d.createDimension('num_dim',2)
    d.createDimension('num_nodes',len(coords)); ne=sum(len(b) for b in blocks); d.createDimension('num_elem',ne)
    d.createDimension('num_el_blk',len(blocks))
    d.createVariable('coordx','f8',('num_nodes',))[:]=coords[:,0]; d.createVariable('coordy','f8',('num_nodes',))[:]=coords[:,1]
    def names_var(var,dim,lst):
        v=d.createVariable(var,'S1',(dim,'len_name'))
        arr=onp.zeros((len(lst),256),'S1')
        for i,s in enumerate(lst):
            for j,ch in enumerate(s.encode()): arr[i,j]=bytes([ch])
        v.set_auto_mask(False); v[:]=arr
    names_var('eb_names','num_el_blk',['blk_%c'%(97+i) if names else '' for i in range(len(blocks))])
    for i,b in enumerate(blocks):
        d.createDimension('num_el_in_blk%d'%(i+1),len(b)); d.createDimension('num_nod_per_el%d'%(i+1),b.shape[1])
        v=d.createVariable('connect%d'%(i+1),'i4',('num_el_in_blk%d'%(i+1),'num_nod_per_el%d'%(i+1))); v.elem_type=etype; v[:]=b+1
    if nodesets:
        d.createDimension('num_node_sets',len(nodesets)); names_var('ns_names','num_node_sets',[n if names else '' for n,_ in nodesets])
        for i,(n,ids) in enumerate(nodesets):
            d.createDimension('num_nod_ns%d'%(i+1),len(ids)); d.createVariable('node_ns%d'%(i+1),'i4',('num_nod_ns%d'%(i+1),))[:]=onp.array(ids)+1
    if sidesets:
        d.createDimension('num_side_sets',len(sidesets)); names_var('ss_names','num_side_sets',[n if names else '' for n,_ in sidesets])
        for i,(n,es) in enumerate(sidesets):
            es=onp.array(es); d.createDimension('num_side_ss%d'%(i+1),len(es))
            d.createVariable('elem_ss%d'%(i+1),'i4',('num_side_ss%d'%(i+1),))[:]=es[:,0]+1; d.createVariable('side_ss%d'%(i+1),'i4',('num_side_ss%d'%(i+1),))[:]=es[:,1]+1
    if elem_map: d.createVariable('elem_num_map','i4',('num_elem',))[:]=onp.arange(ne)+101
    d.close()
# build tri6 from library elevation then convert to exodus ordering
base=Mesh.construct_structured_mesh(3,3,[0.,1.],[0.,1.]); m2=Mesh.create_higher_order_mesh_from_simplex_mesh(base,2)
native=onp.array(m2.conns); inv=onp.argsort(onp.array(ReadExodusMesh.exodusToNativeTri6NodeOrder))
exo=native[:,inv]  # exo[:, perm] == native
assert (exo[:,onp.array(ReadExodusMesh.exodusToNativeTri6NodeOrder)]==native).all()
for names in (True,False):
    for fmt in ('NETCDF3_64BIT_OFFSET','NETCDF4'):
        write_exo('/tmp/probe/t.exo',onp.array(m2.coords),[exo[:3],exo[3:]],'TRI6',[('ns1',[0,1,2]),('ns2',[5])],[('ss1',[[0,0],[2,1]])],names=names,fmt=fmt,elem_map=names)
        m=ReadExodusMesh.read_exodus_mesh('/tmp/probe/t.exo')
        print(names,fmt,"conn ok",(onp.array(m.conns)==native).all(),"blocks",{k:onp.array(v).tolist() for k,v in m.blocks.items()},"ns",{k:onp.array(v).tolist() for k,v in m.nodeSets.items()},"ss",{k:onp.array(v).tolist() for k,v in m.sideSets.items()},"maps",{k:v.tolist() for k,v in m.block_maps.items()},"nsimplex",len(m.simplexNodesOrdinals))
json.dump({'coordinates':onp.array(base.coords).tolist(),'connectivity':onp.array(base.conns).tolist(),'nodeSets':{'a':[0,1]},'sideSets':{'s':[[0,1],[0,2]]}},open('/tmp/probe/t.json','w'))
mj=ReadMesh.read_json_mesh('/tmp/probe/t.json'); print("json",mj.conns.shape,{k:onp.array(v).tolist() for k,v in mj.sideSets.items()},mj.blocks)
