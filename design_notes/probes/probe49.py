import sys, io, contextlib; sys.path.insert(0,'/tmp/probe/shim')
import jax, jax.numpy as np, numpy as onp
with contextlib.redirect_stdout(io.StringIO()):
    from optimism.material import HyperViscoelastic as HV, MultiBranchHyperViscoelastic as MB, Gent
    from optimism.phasefield import PhaseFieldThreshold as PFT
    p1={'equilibrium bulk modulus':100.,'equilibrium shear modulus':1.0,'non equilibrium shear modulus':2.0,'relaxation time':0.5}
    m1=HV.create_material_model_functions(p1)
rng=onp.random.default_rng(0)
W=jax.jit(m1.compute_energy_density); st=m1.compute_initial_state()
def hencky_dev2(H):
    F=H+onp.eye(3); w,V=onp.linalg.eigh(F.T@F); E=V@onp.diag(0.5*onp.log(w))@V.T; d=E-onp.trace(E)/3*onp.eye(3); return (d*d).sum()
def weq(H,K,G):
    F=H+onp.eye(3); J=onp.linalg.det(F); return 0.5*G*(J**(-2/3)*(F*F).sum()-3)+0.5*K*(0.5*J*J-0.5-onp.log(J))
for t in range(5):
    H=rng.normal(size=(3,3))*0.1
    inst=weq(H,100.,1.)+2.0*hencky_dev2(H); eq=weq(H,100.,1.)
    print("dt->0: ",[ "%.2e"%abs(float(W(np.array(H),st,dt*0.5))-inst) for dt in (1e-6,1e-8)], " dt->inf:",["%.2e"%abs(float(W(np.array(H),st,dt*0.5))-eq) for dt in (1e6,1e8)], "scale %.2e"%inst)
# Gent + phasefield reference & objectivity
g=Gent.create_material_functions({'bulk modulus':100.,'shear modulus':1.0,'Jm parameter':10.0})
print("gent W0",float(g.compute_energy_density(np.zeros((3,3)),g.compute_initial_state(),0.0)), "P0", float(np.abs(jax.grad(g.compute_energy_density)(np.zeros((3,3)),g.compute_initial_state(),0.0)).max()))
pf=PFT.create_material_model_functions({'elastic modulus':10.,'poisson ratio':0.3,'critical energy release rate':1.0,'regularization length':0.1})
print("pf W0",float(pf.compute_energy_density(np.zeros((3,3)),0.0,np.zeros(2),pf.compute_initial_state(),0.0)))
