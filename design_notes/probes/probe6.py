import sys; sys.path.insert(0,'/tmp/probe/shim')
import jax, jax.numpy as np, numpy as onp
from optimism import TensorMath as TM
onp.set_printoptions(precision=17, linewidth=200)
A = onp.array([[ 1.6402282062906002 ,  0.4161631135156594 , -0.13019047522572513],
       [ 0.4161631135156594 ,  1.3104393909107994 ,  0.19162244678564916],
       [-0.13019047522572513,  0.19162244678564916,  1.8630279222260575 ]])
fv = jax.jit(jax.vmap(TM.eigen_sym33_unit))
for n in (1,2,3,4,8):
    lam,V = fv(np.array(onp.tile(A,(n,1,1))))
    V=onp.array(V[0]); print(n, "orth err", onp.abs(V.T@V-onp.eye(3)).max())
fv2 = jax.vmap(TM.eigen_sym33_unit)
lam,V = fv2(np.array(onp.tile(A,(1,1,1)))); V=onp.array(V[0]); print("vmap nojit", onp.abs(V.T@V-onp.eye(3)).max())
# inside jit single but called from larger jitted function
g = jax.jit(lambda A: TM.log_symm(A))
gv = jax.jit(jax.vmap(TM.log_symm))
ref = onp.array(g(np.array(A)))
bv = onp.array(gv(np.array(onp.tile(A,(4,1,1))))[0])
print("log single vs vmap diff", onp.abs(ref-bv).max())
import scipy.linalg
print("log single err", onp.abs(ref-scipy.linalg.logm(A)).max(), "vmap err", onp.abs(bv-scipy.linalg.logm(A)).max())
