import sys; sys.path.insert(0,'/tmp/probe/shim')
import jax, jax.numpy as np, numpy as onp
from optimism import ScalarRootFind as SRF
rng=onp.random.default_rng(0)
fams={'affine':lambda x,a:a[0]*(x-a[1]),'cubic':lambda x,a:a[0]*((x-a[1])**3+a[2]*(x-a[1])),'exp':lambda x,a:a[0]*(np.exp(a[2]*(x-a[1]))-1.0),
 'tanh':lambda x,a:a[0]*np.tanh(20*a[2]*(x-a[1])),'sin':lambda x,a:a[0]*np.sin(3*(x-a[1]))+0.0*a[2],'odd5':lambda x,a:a[0]*(x-a[1])**5+0.0*a[2],
 'pow':lambda x,a:a[0]*(np.sign(x-a[1])*np.abs(x-a[1])**(1.0/3.0))+0.0*a[2]}
stats={}
for name,f in fams.items():
    def solve(a,x0,lo,hi,xt,rt,mi): return SRF.find_root(lambda x:f(x,a),x0,np.array([lo,hi]),SRF.get_settings(max_iters=mi,x_tol=xt,r_tol=rt))
    js=jax.jit(solve,static_argnums=(6,))
    dj=jax.jit(jax.grad(lambda a,x0,lo,hi,xt,rt,mi: solve(a,x0,lo,hi,xt,rt,mi)[0]),static_argnums=(6,))
    st=dict(n=0,conv=0,nan_honest=0,outside=0,tolfail=0,nobracket_nan=0,nobracket_notnan=0,endpoint_ok=0,endpoint_bad=0,derr=0.0)
    for t in range(300):
        root=rng.normal(); a=np.array([rng.choice([-1,1])*10**rng.uniform(-2,2),root,10**rng.uniform(-1,1)])
        w=10**rng.uniform(-2,2); lo=root-w*rng.uniform(0.05,1); hi=root+w*rng.uniform(0.05,1)
        if name=='sin': lo=root-0.9;hi=root+0.9
        mode=t%5
        if mode==3: lo=root   # endpoint root
        if mode==4: lo=root+0.1*(hi-root); # no sign change (for monotone fams)
        if rng.random()<0.3: lo,hi=hi,lo
        x0=rng.uniform(min(lo,hi)-w,max(lo,hi)+w)
        mi=200 if t%2 else 50
        x,info=js(a,x0,lo,hi,1e-13,0.0,mi); x=float(x); st['n']+=1
        fl=float(f(lo,a)); fh=float(f(hi,a))
        if mode==4 and fl*fh>0:
            st['nobracket_nan' if onp.isnan(x) else 'nobracket_notnan']+=1; continue
        if mode==3:
            st['endpoint_ok' if x==lo else 'endpoint_bad']+=1
            if x!=lo and st['endpoint_bad']<3: print(name,"endpoint",x,lo,fl)
            continue
        if onp.isnan(x):
            st['nan_honest']+= int((not bool(info.converged)) and int(info.iterations)==mi); 
            if bool(info.converged) or int(info.iterations)!=mi: print(name,"DISHONEST NaN",info)
            continue
        st['conv']+=1
        if not(min(lo,hi)<=x<=max(lo,hi)): st['outside']+=1
        # tolerance: sign change within x_tol*4 around x or |f| tiny
        if not (abs(x-root)<=1e-12*max(1,abs(root)) + 4e-13 or abs(float(f(x,a)))==0): 
            st['tolfail']+=1
            if st['tolfail']<3: print(name,"tolfail x",x,"root",root,"iters",int(info.iterations),"mi",mi)
        # derivative wrt a[1] should be 1
        d=onp.array(dj(a,x0,lo,hi,1e-13,0.0,mi)); st['derr']=max(st['derr'],abs(d[1]-1.0))
    stats[name]=st; print(name,st)
