import sys, io, contextlib; sys.path.insert(0,'/tmp/pb/shim')
import jax, jax.numpy as np, numpy as onp
from optimism import EquationSolver as es, TrustRegionSPG as spg
rng=onp.random.default_rng(0)
w=dict(norm=0,offpath=0); buf=io.StringIO()
for t in range(3000):
    n=int(rng.integers(1,12)); M=rng.normal(size=(n,n)); P=M@M.T+n*onp.eye(n)*10**rng.uniform(-3,1)
    if t%3==0: P=onp.eye(n)
    cp=rng.normal(size=n)*10**rng.uniform(-3,3); nw=rng.normal(size=n)*10**rng.uniform(-3,3)
    if t%4==0: nw=cp*rng.uniform(0.1,5)
    D=10**rng.uniform(-4,4)
    with contextlib.redirect_stdout(buf):
        d=onp.array(es.dogleg_step(np.array(cp),np.array(nw),D,lambda v:np.array(P)@v))
    nrm=onp.sqrt(d@P@d); w['norm']=max(w['norm'],nrm/D-1)
    # on path: d = t*cp (t in[0,1]) or cp+s(nw-cp)
    t1=(d@cp)/(cp@cp); r1=onp.linalg.norm(d-t1*cp)/max(onp.linalg.norm(d),1e-300) if -1e-12<=t1<=1+1e-12 else 1
    e=nw-cp; s1=((d-cp)@e)/(e@e) if e@e>0 else 0; r2=onp.linalg.norm(d-cp-s1*e)/max(onp.linalg.norm(d),1e-300) if -1e-12<=s1<=1+1e-12 else 1
    w['offpath']=max(w['offpath'],min(r1,r2))
print("dogleg",w)
# generalized cauchy point
s=spg.get_settings(); w=dict(infeas=0,tr=0,suff=0,exc=0,n=0)
for t in range(1500):
    n=int(rng.integers(1,8)); M=rng.normal(size=(n,n)); H=M@M.T/n+0.1*onp.eye(n)-(0.8*onp.eye(n) if t%3==0 else 0)
    x=rng.normal(size=n); lb=x-10**rng.uniform(-3,1,n)*(rng.random(n)>0.2); ub=x+10**rng.uniform(-3,1,n)*(rng.random(n)>0.2)
    g=rng.normal(size=n)*10**rng.uniform(-2,2); D=10**rng.uniform(-3,3); a0=10**rng.uniform(-4,2)
    try:
        with contextlib.redirect_stdout(buf):
            a,sv=spg.find_generalized_cauchy_point(np.array(x),np.array(g),lambda v:np.array(H)@v,np.column_stack((lb,ub)),a0,D,s)
    except RuntimeError: w['exc']+=1; continue
    sv=onp.array(sv); w['n']+=1
    y=x+sv; w['infeas']=max(w['infeas'],(lb-y).max(),(y-ub).max()); w['tr']=max(w['tr'],onp.linalg.norm(sv)/D-1)
    m=0.5*sv@H@sv+g@sv; w['suff']=max(w['suff'],(m-s.cauchy_point_sufficient_decrease_factor*(g@sv))/max(abs(g@sv),1e-300))
print("gcp",w)
