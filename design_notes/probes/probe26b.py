import sys, io, contextlib, time; sys.path.insert(0,'/tmp/probe/shim')
import jax, jax.numpy as np, numpy as onp
from optimism import Mesh, FunctionSpace as FS, QuadratureRule as QR, Mechanics, SparseMatrixAssembler as SMA, EquationSolver as es, Objective
from optimism import BoundConstrainedObjective as BCO, BoundConstrainedSolver as BCS, AlSolver
from optimism.material import LinearElastic
from scipy.sparse import csc_matrix
buf=io.StringIO()
# --- Newmark energy conservation
mesh=Mesh.construct_structured_mesh(4,3,[0.,1.],[0.,0.5],elementOrder=2)
q=QR.create_quadrature_rule_on_triangle(4); fs=FS.construct_function_space(mesh,q)
dm=FS.DofManager(fs,2,[])
mat=LinearElastic.create_material_model_functions({'elastic modulus':10.,'poisson ratio':0.25,'density':2.0})
dyn=Mechanics.create_dynamics_functions(fs,'plane strain',mat,Mechanics.NewmarkParameters(gamma=0.5,beta=0.25))
st=dyn.compute_initial_state()
rng=onp.random.default_rng(0)
U=np.array(0.01*rng.normal(size=mesh.coords.shape)); V=np.array(0.1*rng.normal(size=mesh.coords.shape)); 
def energy(Uu,p):
    Uf=dm.create_field(Uu); dt=p.time[0]-p.time[1]
    return dyn.compute_algorithmic_energy(Uf,p.dynamic_data,st,dt)
# consistent initial acceleration: M A = -f_int
Mel=dyn.compute_element_masses(); Mm=SMA.assemble_sparse_stiffness_matrix(Mel,mesh.conns,dm).toarray()
fint=jax.grad(lambda Uu: dyn.compute_output_strain_energy(dm.create_field(Uu),st,0.0))(dm.get_unknown_values(U))
A=np.zeros(mesh.coords.shape)
print("mass sum/comp",Mm.sum()/2,"rho*area",2.0*0.5)
E0=float(dyn.compute_output_kinetic_energy(V)+dyn.compute_output_strain_energy(U,st,0.0))
p=Objective.Params(None,st,None,None,np.array([0.,-1.]),U)
with contextlib.redirect_stdout(buf):
    obj=Objective.Objective(energy,dm.get_unknown_values(U),p)
settings=es.get_settings(tol=1e-12,min_tr_size=1e-14,debug_info=False,max_trust_iters=200)
t=0.
for step in range(10):
    dt=10**rng.uniform(-2,0); 
    UP,V=dyn.predict(U,V,A,dt)
    obj.p=Objective.param_index_update(obj.p,4,np.array([t+dt,t])); obj.p=Objective.param_index_update(obj.p,5,UP)
    with contextlib.redirect_stdout(buf):
        Uu,ok=es.nonlinear_equation_solve(obj,dm.get_unknown_values(UP),obj.p,settings,useWarmStart=False)
    U=dm.create_field(Uu); V,A=dyn.correct(U-UP,V,A,dt); t+=dt
    E=float(dyn.compute_output_kinetic_energy(V)+dyn.compute_output_strain_energy(U,st,0.0))
    res=Mm@onp.array(A).ravel()+onp.array(jax.grad(lambda Uu: dyn.compute_output_strain_energy(dm.create_field(Uu),st,0.0))(Uu))
    print(step,"dt %.3f ok %s relE %.2e momentum res %.2e"%(dt,ok,(E-E0)/E0,onp.abs(res).max()))
