import sys; sys.path.insert(0,'/tmp/probe/shim')
import jax, jax.numpy as np, numpy as onp
from scipy.spatial.transform import Rotation
from optimism import TensorMath as TM
rng=onp.random.default_rng(0)
def dk(A,dA,f,df,rd):
    lam,V=onp.linalg.eigh(A); W=V.T@dA@V; h=onp.zeros((3,3))
    for i in range(3):
        for j in range(3):
            h[i,j]=df(lam[i]) if (i==j or lam[i]==lam[j]) else rd(lam[i],lam[j])
    return V@(h*W)@V.T
fs={'sqrt':(TM.sqrt_symm,onp.sqrt,lambda x:0.5/onp.sqrt(x),lambda a,b:1/(onp.sqrt(a)+onp.sqrt(b))),
    'log':(TM.log_symm,onp.log,lambda x:1/x,lambda a,b:onp.log1p((a-b)/b)/(a-b)),
    'exp':(TM.exp_symm,onp.exp,lambda x:onp.exp(x),lambda a,b:onp.exp(b)*onp.expm1(a-b)/(a-b))}
for name,(F,f,df,rd) in fs.items():
    J=jax.jit(lambda A,dA:jax.jvp(F,(A,),(dA,))[1]); Jv=jax.jit(jax.vmap(lambda A,dA:jax.jvp(F,(A,),(dA,))[1]))
    for gapexp in (0,-4,-8,-12,None):
        worst=0;As=[];dAs=[];refs=[]
        for i in range(200):
            R=Rotation.random(random_state=int(rng.integers(1<<31))).as_matrix()
            a,b=rng.uniform(0.5,2,2); g=0 if gapexp is None else 10.0**gapexp
            A=R@onp.diag([a,a*(1+g),b])@R.T; A=0.5*(A+A.T)
            dA=rng.normal(size=(3,3)); dA=0.5*(dA+dA.T)
            ref=dk(A,dA,f,df,rd); t=onp.array(J(np.array(A),np.array(dA)))
            worst=max(worst,onp.abs(t-ref).max()/onp.abs(ref).max()); As.append(A);dAs.append(dA);refs.append(ref)
        tv=onp.array(Jv(np.array(onp.array(As)),np.array(onp.array(dAs)))); refs=onp.array(refs)
        wv=onp.nanmax(onp.abs(tv-refs).max(axis=(1,2))/onp.abs(refs).max(axis=(1,2)))
        print(name,"gap",gapexp,"single jvp err %.1e  batch jvp err %.1e nan %d"%(worst,wv,onp.isnan(tv).any(axis=(1,2)).sum()))
