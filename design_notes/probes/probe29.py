import sys, io, contextlib; sys.path.insert(0,'/tmp/probe/shim')
import jax, jax.numpy as np, numpy as onp
from scipy.spatial.transform import Rotation
from optimism.material import LinearElastic, J2Plastic, Neohookean
with contextlib.redirect_stdout(io.StringIO()):
    from optimism.material import HyperViscoelastic as HV
rng=onp.random.default_rng(0)
mods={'le-log':LinearElastic.create_material_model_functions({'elastic modulus':10.,'poisson ratio':0.3,'strain measure':'logarithmic'}),
      'j2':J2Plastic.create_material_model_functions({'elastic modulus':100.,'poisson ratio':0.3,'yield strength':1e3,'hardening model':'linear','hardening modulus':1.0}),
      'neo':Neohookean.create_material_model_functions({'elastic modulus':10.,'poisson ratio':0.3})}
with contextlib.redirect_stdout(io.StringIO()):
    mods['visco']=HV.create_material_model_functions({'equilibrium bulk modulus':100.,'equilibrium shear modulus':1.0,'non equilibrium shear modulus':2.0,'relaxation time':0.5})
def states(n,cls):
    out=[]
    for i in range(n):
        R=Rotation.random(random_state=int(rng.integers(1<<31))).as_matrix()
        if cls=='inplane':
            th=rng.uniform(0,2*onp.pi); c,s=onp.cos(th),onp.sin(th); R=onp.array([[c,-s,0],[s,c,0],[0,0,1.]])
        a,b=onp.exp(rng.uniform(-0.5,0.5,2))
        U=R@onp.diag([a,a,b] if i%2 else [a,b,b])@R.T
        if cls=='inplane': U=R@onp.diag([a,1.0,1.0])@R.T   # uniaxial in-plane
        Q=Rotation.random(random_state=int(rng.integers(1<<31))).as_matrix()
        out.append((U-onp.eye(3), Q@U-onp.eye(3)))
    return out
for name,m in mods.items():
    st=m.compute_initial_state()
    W1=jax.jit(m.compute_energy_density); P1=jax.jit(jax.grad(m.compute_energy_density))
    Wv=jax.jit(jax.vmap(m.compute_energy_density,(0,None,None))); Pv=jax.jit(jax.vmap(jax.grad(m.compute_energy_density),(0,None,None)))
    for cls in ('generic','inplane'):
        S=states(300,cls)
        H=onp.array([s[0] for s in S]); HQ=onp.array([s[1] for s in S])
        w=onp.array([float(W1(np.array(h),st,1.0)) for h in H]); wq=onp.array([float(W1(np.array(h),st,1.0)) for h in HQ])
        wv=onp.array(Wv(np.array(H),st,1.0)); wqv=onp.array(Wv(np.array(HQ),st,1.0))
        p=onp.array([onp.array(P1(np.array(h),st,1.0)) for h in H]); pv=onp.array(Pv(np.array(H),st,1.0))
        tau=onp.einsum('nij,nkj->nik',p,H+onp.eye(3)); asym=onp.abs(tau-tau.transpose(0,2,1)).max(axis=(1,2))/onp.abs(tau).max(axis=(1,2))
        tauv=onp.einsum('nij,nkj->nik',pv,H+onp.eye(3)); asymv=onp.abs(tauv-tauv.transpose(0,2,1)).max(axis=(1,2))/onp.abs(tauv).max(axis=(1,2))
        sc=onp.abs(w)+1e-30
        print(name,cls,"single obj %.1e  batch obj %.1e  single-vs-batch W %.1e | tau asym single %.1e batch %.1e  nan single %d batch %d"%(onp.nanmax(onp.abs(w-wq)/sc),onp.nanmax(onp.abs(wv-wqv)/sc),onp.nanmax(onp.abs(w-wv)/sc),onp.nanmax(asym),onp.nanmax(asymv),onp.isnan(w).sum()+onp.isnan(p).any(axis=(1,2)).sum(),onp.isnan(wv).sum()+onp.isnan(pv).any(axis=(1,2)).sum()))
