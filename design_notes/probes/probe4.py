import sys; sys.path.insert(0,'/tmp/probe/shim')
import jax, jax.numpy as np, numpy as onp
from optimism import TensorMath as TM
from scipy.spatial.transform import Rotation
onp.set_printoptions(precision=17, linewidth=200)
rng = onp.random.default_rng(1)
f = jax.jit(TM.eigen_sym33_unit)
sq = jax.jit(TM.sqrt_symm); lg = jax.jit(TM.log_symm)
bad=0
for i in range(2000):
    R = Rotation.random(random_state=rng.integers(1<<31)).as_matrix()
    a,b = rng.uniform(0.5,2,2)
    A = R@onp.diag([a,a,b])@R.T; A=0.5*(A+A.T)
    lam,V = f(np.array(A)); lam=onp.array(lam); V=onp.array(V)
    rec = V@onp.diag(lam)@V.T
    e = onp.abs(rec-A).max(); o = onp.abs(V.T@V-onp.eye(3)).max()
    if e>1e-6:
        bad+=1
        if bad<=2:
            print("A=",repr(A)); print("lam",lam,"ref",onp.linalg.eigvalsh(A)); print("V",V); print("rec err",e,"orth err",o)
            with jax.disable_jit():
                lam2,V2 = TM.eigen_sym33_unit(np.array(A)); print("nojit V",onp.array(V2))
            s = onp.array(sq(np.array(A))); print("sqrt err", onp.abs(s@s-A).max())
print("bad",bad,"of 2000", flush=True)
bad=0; worst=0
for i in range(2000):
    th=rng.uniform(0,2*onp.pi); n=onp.array([onp.cos(th),onp.sin(th),0.0]); s=rng.uniform(0.5,2)
    F=onp.eye(3)+(s-1)*onp.outer(n,n); C=F.T@F
    L=onp.array(lg(np.array(C)))
    ref = onp.log(s**2)*onp.outer(n,n)
    e=onp.abs(L-ref).max(); 
    if not e<1e-10: 
        bad+=1
        if bad<3: print("uniaxial th",th,"s",s,"err",e)
    else: worst=max(worst,e)
print("uniaxial bad",bad, "worst ok", worst)
