import sys; sys.path.insert(0,'/tmp/probe/shim')
import jax, jax.numpy as np, numpy as onp
from optimism import TrustRegionSPG as spg, Objective
rng=onp.random.default_rng(0)
# project_onto_tr far points
worst=0
for t in range(300):
    n=rng.integers(1,6)
    xk=rng.normal(size=n); lb=xk-10**rng.uniform(-3,1,n); ub=xk+10**rng.uniform(-3,1,n)
    lb[rng.random(n)<0.3]=-onp.inf; ub[rng.random(n)<0.3]=onp.inf
    bounds=np.column_stack((lb,ub))
    D=10**rng.uniform(-6,2)
    x=xk+rng.normal(size=n)*10**rng.uniform(-3,14)
    y=onp.array(spg.project_onto_tr(np.array(x),np.array(xk),bounds,D))
    r=onp.linalg.norm(y-xk)/D
    infeas=max((lb-y).max(),(y-ub).max())
    worst=max(worst,r)
    if r>1+1e-9 or infeas>0: print("tr proj n",n,"D",D,"dist",onp.linalg.norm(x-xk),"ratio",r,"infeas",infeas)
print("worst ratio",worst)
