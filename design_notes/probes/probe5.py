import sys; sys.path.insert(0,'/tmp/probe/shim')
import jax, jax.numpy as np, numpy as onp
from optimism import TensorMath as TM
from scipy.spatial.transform import Rotation
onp.set_printoptions(precision=17, linewidth=200)
rng = onp.random.default_rng(1)
f1 = jax.jit(TM.eigen_sym33_unit)
fv = jax.jit(jax.vmap(TM.eigen_sym33_unit))
As=[]
for i in range(500):
    R = Rotation.random(random_state=rng.integers(1<<31)).as_matrix()
    a,b = rng.uniform(0.5,2,2)
    A = R@onp.diag([a,a,b])@R.T; A=0.5*(A+A.T); As.append(A)
As=onp.array(As)
lamv,Vv = fv(np.array(As)); lamv=onp.array(lamv); Vv=onp.array(Vv)
nb=0
for i,A in enumerate(As):
    rec = Vv[i]@onp.diag(lamv[i])@Vv[i].T
    e = onp.abs(rec-A).max(); o = onp.abs(Vv[i].T@Vv[i]-onp.eye(3)).max()
    if e>1e-6:
        nb+=1
        if nb<=2:
            lam1,V1 = f1(np.array(A))
            print("A=",repr(A)); print("vmap lam",lamv[i]); print("vmap V\n",Vv[i]); print("single lam",onp.array(lam1)); print("single V\n",onp.array(V1)); print("rec",e,"orth",o)
print("vmap bad", nb)
