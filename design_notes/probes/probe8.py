import sys; sys.path.insert(0,'/tmp/probe/shim')
import jax, jax.numpy as np, numpy as onp
from optimism import Mesh, FunctionSpace, QuadratureRule, Mechanics, SparseMatrixAssembler
from optimism.material import Neohookean, LinearElastic
mesh = Mesh.construct_structured_mesh(3,3,[0.,1.],[0.,1.])
ns = {'left': np.flatnonzero(mesh.coords[:,0]<1e-8)}
mesh = Mesh.mesh_with_nodesets(mesh, ns)
q = QuadratureRule.create_quadrature_rule_on_triangle(2)
fs = FunctionSpace.construct_function_space(mesh,q)
dm = FunctionSpace.DofManager(fs,2,[FunctionSpace.EssentialBC('left',0),FunctionSpace.EssentialBC('left',1)])
props={'elastic modulus':10.,'poisson ratio':0.3,'density':2.0}
key=jax.random.PRNGKey(0)
U=0.05*jax.random.normal(key,mesh.coords.shape); UP=0.05*jax.random.normal(jax.random.PRNGKey(1),mesh.coords.shape)
for name,mat in [('linear',LinearElastic.create_material_model_functions(props)),('neo',Neohookean.create_material_model_functions(props))]:
    dyn = Mechanics.create_dynamics_functions(fs,'plane strain',mat,Mechanics.NewmarkParameters())
    st = dyn.compute_initial_state(); dt=0.1
    Ubc = dm.get_bc_values(U)
    def energy(Uu): return dyn.compute_algorithmic_energy(dm.create_field(Uu,Ubc), UP, st, dt)
    H = jax.hessian(energy)(dm.get_unknown_values(U))
    K = SparseMatrixAssembler.assemble_sparse_stiffness_matrix(dyn.compute_element_hessians(U,UP,st,dt), mesh.conns, dm).toarray()
    print(name, "dyn hess mismatch", float(onp.abs(K-H).max()), "scale", float(onp.abs(H).max()))
    stt = Mechanics.create_mechanics_functions(fs,'plane strain',mat)
    def e2(Uu): return stt.compute_strain_energy(dm.create_field(Uu,Ubc), st, dt)
    H2 = jax.hessian(e2)(dm.get_unknown_values(U))
    K2 = SparseMatrixAssembler.assemble_sparse_stiffness_matrix(stt.compute_element_stiffnesses(U,st,dt), mesh.conns, dm).toarray()
    print(name, "static mismatch", float(onp.abs(K2-H2).max()))
mat=Neohookean.create_material_model_functions(props)
for label,fn in [('static pp', lambda: Mechanics.create_mechanics_functions(fs,'plane strain',mat,pressureProjectionDegree=1)),
                 ('multi pp', lambda: Mechanics.create_multi_block_mechanics_functions(fs,'plane strain',{'block_0':mat},pressureProjectionDegree=1)),
                 ('dyn pp', lambda: Mechanics.create_dynamics_functions(fs,'plane strain',mat,Mechanics.NewmarkParameters(),pressureProjectionDegree=1)),
                 ('axi', lambda: Mechanics.create_mechanics_functions(fs,'axisymmetric',mat)),
                 ('multi', lambda: Mechanics.create_multi_block_mechanics_functions(fs,'plane strain',{'block_0':mat}))]:
    try:
        F = fn(); st = F.compute_initial_state()
        if 'dyn' in label:
            e = F.compute_algorithmic_energy(U,UP,st,0.1); 
        else:
            e = F.compute_strain_energy(U,st,0.1); k=F.compute_element_stiffnesses(U,st,0.1)
        print(label,"ok",float(e))
    except Exception as ex:
        print(label,"EXC",type(ex).__name__,str(ex)[:150])
