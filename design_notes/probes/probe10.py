import sys; sys.path.insert(0,'/tmp/probe/shim')
import jax, jax.numpy as np, numpy as onp, re
from optimism import Mesh, VTKWriter
def sections(fn):
    txt=open(fn).read().split('\n'); out={}
    i=0; cur=None
    for l in txt:
        t=l.split()
        if not t: continue
        if t[0] in ('POINTS','CELLS','CELL_TYPES','POINT_DATA','CELL_DATA','SCALARS','VECTORS','TENSORS'):
            cur=l; out[cur]=0
        elif t[0] in('LOOKUP_TABLE','#','Written','ASCII','DATASET'): pass
        elif cur: out[cur]+=1
    return out
for order in (1,2,3):
    mesh=Mesh.construct_structured_mesh(3,3,[0.,1.],[0.,1.],elementOrder=order)
    w=VTKWriter.VTKWriter(mesh,'/tmp/probe/out%d'%order)
    w.add_nodal_field('u', onp.ones((mesh.coords.shape[0],2)), VTKWriter.VTKFieldType.VECTORS)
    w.add_cell_field('c', onp.ones((mesh.conns.shape[0],)), VTKWriter.VTKFieldType.SCALARS)
    w.add_sphere(onp.array([0.5,0.5]),0.1)
    w.add_contact_edges(onp.array([[0,1],[1,2]]))
    try:
        w.write(); a=open(w.fileName).read(); s1=sections(w.fileName)
        w.write(); b=open(w.fileName).read()
        print(order, s1, "identical rewrite:", a==b)
    except Exception as ex: print(order,"EXC",type(ex).__name__,ex)
