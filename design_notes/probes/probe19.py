import sys; sys.path.insert(0,'/tmp/probe/shim')
import jax, jax.numpy as np, numpy as onp
from optimism import Mesh, Interpolants
from scipy.spatial import Delaunay
rng=onp.random.default_rng(0)
def rand_mesh(n):
    pts=rng.uniform(0,1,(n,2)); tri=Delaunay(pts); conns=tri.simplices.copy()
    # ensure ccw, drop slivers, random cyclic rotation
    out=[]
    for c in conns:
        a,b,cc=pts[c]; area=0.5*onp.cross(b-a,cc-a)
        if abs(area)<1e-6: continue
        if area<0: c=c[[0,2,1]]
        r=rng.integers(0,3); out.append(onp.roll(c,r))
    conns=onp.array(out)
    used=onp.unique(conns); remap=-onp.ones(n,int); remap[used]=onp.arange(len(used))
    return pts[used], remap[conns]
for trial in range(6):
    coords,conns=rand_mesh(int(rng.integers(5,25)))
    base=Mesh.construct_mesh_from_basic_data(np.array(coords),np.array(conns),{'b':np.arange(len(conns))})
    for order in (2,3,4,5):
      for bubble in (False,True):
        try:
            m=Mesh.create_higher_order_mesh_from_simplex_mesh(base,order,useBubbleElement=bubble)
        except Exception as ex:
            print("EXC",order,bubble,type(ex).__name__,str(ex)[:100]); continue
        C=onp.array(m.coords); K=onp.array(m.conns); pe=m.parentElement
        ok=True; msg=[]
        if K.min()<0 or K.max()>=len(C): msg.append("range")
        if len(onp.unique(K))!=len(C): msg.append("unused nodes %d vs %d"%(len(onp.unique(K)),len(C)))
        # duplicates
        rr=onp.round(C,10); 
        if len(onp.unique(rr,axis=0))!=len(C): msg.append("duplicate coords")
        # affine image
        ref=onp.array(pe.coordinates); V=onp.array(pe.vertexNodes)
        maxerr=0
        for e in range(len(K)):
            v=C[K[e][V]]
            # ref coords (xi,eta): x = xi*v0 + eta*v1 + (1-xi-eta)*v2
            X=ref[:,[0]]*v[0]+ref[:,[1]]*v[1]+(1-ref[:,[0]]-ref[:,[1]])*v[2]
            maxerr=max(maxerr,onp.abs(X-C[K[e]]).max())
        if maxerr>1e-12: msg.append("affine err %.2e"%maxerr)
        print(trial,order,bubble,"nodes",len(C),"nel",len(K),"OK" if not msg else msg)
