import sys, io, contextlib; sys.path.insert(0,'/tmp/probe/shim')
import jax, jax.numpy as np, numpy as onp
with contextlib.redirect_stdout(io.StringIO()):
    from optimism.material import HyperViscoelastic as HV, MultiBranchHyperViscoelastic as MB
    p1={'equilibrium bulk modulus':100.,'equilibrium shear modulus':1.0,'non equilibrium shear modulus':2.0,'relaxation time':0.5}
    m1=HV.create_material_model_functions(p1)
    p3={'equilibrium bulk modulus':100.,'equilibrium shear modulus':1.0,'non equilibrium shear modulus 1':2.0,'relaxation time 1':0.5,'non equilibrium shear modulus 2':1.0,'relaxation time 2':5.,'non equilibrium shear modulus 3':0.3,'relaxation time 3':50.}
    m3=MB.create_material_model_functions(p3)
rng=onp.random.default_rng(0)
for name,m,nb in (("single",m1,1),("multi",m3,3)):
    W=jax.jit(m.compute_energy_density); up=jax.jit(m.compute_state_new); D=jax.jit(m.compute_material_qoi)
    worst=dict(diss=0,det=0)
    for path in range(20):
        st=m.compute_initial_state(); H=onp.zeros((3,3))
        for s in range(10):
            dH=rng.normal(size=(3,3))*10**rng.uniform(-3,-1); dH[2,:2]=0;dH[:2,2]=0; H=H+dH
            if onp.linalg.det(H+onp.eye(3))<0.3: H=H-dH; continue
            dt=10**rng.uniform(-6,6)*0.5
            d=float(D(np.array(H),st,dt)); worst['diss']=min(worst['diss'],d)
            st=up(np.array(H),st,dt)
            for b in range(nb):
                worst['det']=max(worst['det'],abs(float(onp.linalg.det(onp.array(st[9*b:9*b+9]).reshape(3,3)))-1))
        # relaxation at fixed H
        prev=None
        for s in range(6):
            dt=10**rng.uniform(-2,2)
            st=up(np.array(H),st,dt)
            # stored neq energy = W(dt->0 limit with current state) - W_eq : use tiny dt
            wn=float(W(np.array(H),st,1e-12))
            if prev is not None and wn>prev+1e-13*max(1,abs(prev)): print(name,"relax increase",prev,wn)
            prev=wn
    print(name,worst)
