import sys; sys.path.insert(0,'/tmp/probe/shim'); sys.path.insert(0,'/tmp/repo_fix')
import jax, jax.numpy as np, numpy as onp
from optimism import Mesh, FunctionSpace, QuadratureRule, Mechanics, SparseMatrixAssembler
from optimism.material import Neohookean
mesh = Mesh.construct_structured_mesh(3,3,[0.,1.],[0.,1.],elementOrder=2)
mesh = Mesh.mesh_with_nodesets(mesh, {'left': np.flatnonzero(mesh.coords[:,0]<1e-8)})
q = QuadratureRule.create_quadrature_rule_on_triangle(4); fs = FunctionSpace.construct_function_space(mesh,q)
dm = FunctionSpace.DofManager(fs,2,[FunctionSpace.EssentialBC('left',0),FunctionSpace.EssentialBC('left',1)])
mat=Neohookean.create_material_model_functions({'elastic modulus':10.,'poisson ratio':0.45,'density':2.0})
U=0.03*jax.random.normal(jax.random.PRNGKey(0),mesh.coords.shape); UP=0.03*jax.random.normal(jax.random.PRNGKey(1),mesh.coords.shape); Ubc=dm.get_bc_values(U)
for deg in (0,1):
  for label,F in [('static',Mechanics.create_mechanics_functions(fs,'plane strain',mat,pressureProjectionDegree=deg)),
                  ('axi',Mechanics.create_mechanics_functions(FunctionSpace.construct_function_space(Mesh.mesh_with_coords(mesh,mesh.coords+np.array([1.0,0.])),q,'axisymmetric'),'axisymmetric',mat,pressureProjectionDegree=deg)),
                  ('multi',Mechanics.create_multi_block_mechanics_functions(fs,'plane strain',{'block_0':mat},pressureProjectionDegree=deg)),
                  ('dyn',Mechanics.create_dynamics_functions(fs,'plane strain',mat,Mechanics.NewmarkParameters(),pressureProjectionDegree=deg))]:
    try:
        st=F.compute_initial_state()
        if label=='dyn':
            e=lambda Uu: F.compute_algorithmic_energy(dm.create_field(Uu,Ubc),UP,st,0.1); K=F.compute_element_hessians(U,UP,st,0.1)
        else:
            e=lambda Uu: F.compute_strain_energy(dm.create_field(Uu,Ubc),st,0.1); K=F.compute_element_stiffnesses(U,st,0.1)
        H=jax.hessian(e)(dm.get_unknown_values(U)); Ka=SparseMatrixAssembler.assemble_sparse_stiffness_matrix(K,mesh.conns,dm).toarray()
        F0=Mechanics.create_mechanics_functions(fs,'plane strain',mat)
        print(deg,label,"mismatch %.2e scale %.2e sym %.1e"%(onp.abs(Ka-H).max(),onp.abs(H).max(),onp.abs(Ka-Ka.T).max()))
    except Exception as ex:
        import traceback; print(deg,label,"EXC",type(ex).__name__,str(ex)[:200])
